--------------------------------- MODULE Jsr ---------------------------------
(* JSR version selection (C06) and registry URL algebra (C07).               *)
(* Versions are indices into the ascending list Vers; a requirement is a     *)
(* range over the total order plus the pre-release admission rule.           *)
(*   resolve_version(): src/packages.rs 354-477 (four tiers), 502-531        *)
EXTENDS Common

\* ascending semver order; index 4 is a pre-release of index 5; index 6 is never published
\* (it can only occur as an already-selected / lockfile-seeded version)
Vers == <<"1.0.0", "1.1.0", "1.2.0", "2.0.0-rc.1", "2.0.0", "1.5.0">>
Published == 1..5
Unknown == 6
IsPre(i) == i = 4
\* rank in semver order (1.5.0 sits between 1.2.0 and 2.0.0-rc.1)
Rank(i) == CASE i = 1 -> 1 [] i = 2 -> 2 [] i = 3 -> 3 [] i = 6 -> 4 [] i = 4 -> 5 [] i = 5 -> 6
MaxV(S) == CHOOSE x \in S : \A y \in S : Rank(y) <= Rank(x)

\* requirement texts (as written after `@` in a jsr: specifier) and the set of versions each matches.
\* Pre-release rule: a pre-release version matches only a requirement that names a pre-release of the same
\* major.minor.patch.  The table is calibrated against deno_semver by the replay (CALIBRATION lines).
ReqNames == {"*", "1", "^1.1.0", "~1.0", "1.1.0", "~1.1", "2", "^2.0.0-rc.1", "3", "1.2", "^1.5.0"}
MatchSet(r) ==
  CASE r = "*" -> {1, 2, 3, 5, 6}
    [] r = "1" -> {1, 2, 3, 6}
    [] r = "^1.1.0" -> {2, 3, 6}
    [] r = "~1.0" -> {1}
    [] r = "1.1.0" -> {2}
    [] r = "~1.1" -> {2}
    [] r = "2" -> {5}
    [] r = "^2.0.0-rc.1" -> {4, 5}
    [] r = "3" -> {}
    [] r = "1.2" -> {3}
    [] r = "^1.5.0" -> {6}
Matches(r, i) == i \in MatchSet(r)

\* registry: reg[i] = [p: BOOLEAN (published), yanked: BOOLEAN, date: {"none","old","new"}]
Present(reg) == { i \in Published : reg[i].p }
DateOk(reg, i, cutoffOn) == ~cutoffOn \/ reg[i].date # "new"      \* created_at < cutoff; missing date counts as old

\* the newest-dependency date applies unless the package is excluded by name or by name prefix
\* (NewestDependencyDateOptions::get_for_package, packages.rs 60-75)
EffectiveCutoff(cutoffOn, excludedByName, excludedByPrefix) == cutoffOn /\ ~excludedByName /\ ~excludedByPrefix

(***************************************************************************)
(* As coded: tier by tier                                                  *)
(***************************************************************************)
Pick(cands, r, useDate, reg, cutoffOn) ==
  LET m == { v \in cands : Matches(r, v) }
      ok == { v \in m : ~useDate \/ DateOk(reg, v, cutoffOn) }
  IN IF ok # {} THEN [t |-> "some", v |-> MaxV(ok), had |-> TRUE] ELSE [t |-> "nope", had |-> m # {}]
Operational(reg, r, existing, cached, cutoffOn) ==
  LET t1 == Pick(existing, r, FALSE, reg, cutoffOn) IN
  IF t1.t = "some" THEN [t |-> "ok", v |-> t1.v, yanked |-> (t1.v \in Present(reg) /\ reg[t1.v].yanked)]
  ELSE LET t15 == IF cached # {} THEN Pick({ v \in Present(reg) : ~reg[v].yanked /\ v \in cached }, r, TRUE, reg, cutoffOn)
                  ELSE [t |-> "nope", had |-> FALSE] IN
  IF t15.t = "some" THEN [t |-> "ok", v |-> t15.v, yanked |-> FALSE]
  ELSE LET t2 == Pick({ v \in Present(reg) : ~reg[v].yanked }, r, TRUE, reg, cutoffOn) IN
  IF t2.t = "some" THEN [t |-> "ok", v |-> t2.v, yanked |-> FALSE]
  ELSE LET t3 == Pick({ v \in Present(reg) : reg[v].yanked }, r, TRUE, reg, cutoffOn) IN
  IF t3.t = "some" THEN [t |-> "ok", v |-> t3.v, yanked |-> TRUE]
  ELSE [t |-> "notfound", newer |-> (t2.had \/ t3.had) /\ cutoffOn]

(***************************************************************************)
(* The property statement (C06)                                            *)
(***************************************************************************)
Declarative(reg, r, existing, cached, cutoffOn) ==
  LET sel == { v \in existing : Matches(r, v) }
      good(S) == { v \in S : Matches(r, v) /\ DateOk(reg, v, cutoffOn) }
      c == good({ v \in Present(reg) : ~reg[v].yanked /\ v \in cached })
      u == good({ v \in Present(reg) : ~reg[v].yanked })
      y == good({ v \in Present(reg) : reg[v].yanked })
  IN IF sel # {} THEN [t |-> "ok", v |-> MaxV(sel), yanked |-> (MaxV(sel) \in Present(reg) /\ reg[MaxV(sel)].yanked)]
     ELSE IF c # {} THEN [t |-> "ok", v |-> MaxV(c), yanked |-> FALSE]
     ELSE IF u # {} THEN [t |-> "ok", v |-> MaxV(u), yanked |-> FALSE]
     ELSE IF y # {} THEN [t |-> "ok", v |-> MaxV(y), yanked |-> TRUE]
     ELSE [t |-> "notfound", newer |-> cutoffOn /\ \E v \in Present(reg) : Matches(r, v) /\ ~DateOk(reg, v, cutoffOn)]

(***************************************************************************)
(* The same statement over arbitrary versions (used by the trace spec):    *)
(*   reg      function version -> [yanked, date, ...] of published versions*)
(*   rank     function version -> position in semver order                 *)
(*   match    set of versions satisfying the requirement                   *)
(***************************************************************************)
MaxBy(rank, S) == CHOOSE x \in S : \A y \in S : rank[y] <= rank[x]
SelectG(reg, rank, match, existing, cached, cutoffOn) ==
  LET pub == DOMAIN reg
      ok(v) == ~cutoffOn \/ reg[v].date # "new"
      sel == existing \cap match
      c == { v \in pub : ~reg[v].yanked /\ v \in cached /\ v \in match /\ ok(v) }
      u == { v \in pub : ~reg[v].yanked /\ v \in match /\ ok(v) }
      y == { v \in pub : reg[v].yanked /\ v \in match /\ ok(v) }
  IN IF sel # {} THEN [t |-> "ok", v |-> MaxBy(rank, sel), yanked |-> (MaxBy(rank, sel) \in pub /\ reg[MaxBy(rank, sel)].yanked)]
     ELSE IF c # {} THEN [t |-> "ok", v |-> MaxBy(rank, c), yanked |-> FALSE]
     ELSE IF u # {} THEN [t |-> "ok", v |-> MaxBy(rank, u), yanked |-> FALSE]
     ELSE IF y # {} THEN [t |-> "ok", v |-> MaxBy(rank, y), yanked |-> TRUE]
     ELSE [t |-> "notfound", newer |-> cutoffOn /\ \E v \in pub : v \in match /\ ~ok(v)]
=============================================================================
