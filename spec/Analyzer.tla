------------------------------ MODULE Analyzer ------------------------------
(* C08: what module analysis (src/ast/mod.rs, src/ast/dep.rs) must report    *)
(* for a document, stated over a vocabulary of dependency-bearing items.     *)
(* A document is [header, items, footer]; item j of the document imports the *)
(* specifier numbered j (and, for pragma items, the types specifier j).      *)
(* Expected(doc, mt) is the abstract ModuleInfo: dependency descriptors in   *)
(* source order, triple-slash references, self types, JSX import source,     *)
(* JSDoc imports, source map URL.  Ranges are abstract: "the specifier token *)
(* of item j" -- the harness knows where it wrote that token.                *)
EXTENDS Naturals, Sequences

MediaTypes == {"ts", "tsx", "js", "jsx", "mjs", "dts"}
IsTs(mt) == mt \in {"ts", "tsx", "dts"}
IsJsx(mt) == mt \in {"tsx", "jsx"}
IsJs(mt) == mt \in {"js", "jsx", "mjs"}

\* id |-> [syn, stmt, cls, kind, side, attrs, types, arg]
\*   syn: "any" | "ts" (TypeScript syntax);  stmt: "decl" | "expr" (expression statements do not occur in .d.ts)
\*   cls: "static" | "dynamic" | "jsdoc" | "none"
Item(syn, stmt, cls, kind, side, attrs, types, arg) ==
  [syn |-> syn, stmt |-> stmt, cls |-> cls, kind |-> kind, side |-> side, attrs |-> attrs, types |-> types, arg |-> arg]
Vocab ==
  [ imp |-> Item("any", "decl", "static", "import", FALSE, "none", FALSE, "-"),
    impDefault |-> Item("any", "decl", "static", "import", FALSE, "none", FALSE, "-"),
    impNs |-> Item("any", "decl", "static", "import", FALSE, "none", FALSE, "-"),
    side |-> Item("any", "decl", "static", "import", TRUE, "none", FALSE, "-"),
    impJson |-> Item("any", "decl", "static", "import", FALSE, "json", FALSE, "-"),
    impType |-> Item("ts", "decl", "static", "importType", FALSE, "none", FALSE, "-"),
    impInlineType |-> Item("ts", "decl", "static", "import", FALSE, "none", FALSE, "-"),
    expNamed |-> Item("any", "decl", "static", "export", FALSE, "none", FALSE, "-"),
    expStar |-> Item("any", "decl", "static", "export", FALSE, "none", FALSE, "-"),
    expStarAs |-> Item("any", "decl", "static", "export", FALSE, "none", FALSE, "-"),
    expType |-> Item("ts", "decl", "static", "exportType", FALSE, "none", FALSE, "-"),
    expTypeStar |-> Item("ts", "decl", "static", "exportType", FALSE, "none", FALSE, "-"),
    impEq |-> Item("ts", "decl", "static", "importEquals", FALSE, "none", FALSE, "-"),
    expImpEq |-> Item("ts", "decl", "static", "exportEquals", FALSE, "none", FALSE, "-"),
    typeImportExpr |-> Item("ts", "decl", "static", "importType", FALSE, "none", FALSE, "-"),
    typeofImport |-> Item("ts", "decl", "static", "importType", FALSE, "none", FALSE, "-"),
    declMod |-> Item("ts", "decl", "static", "maybeTsModuleAugmentation", FALSE, "none", FALSE, "-"),
    impDefer |-> Item("any", "decl", "static", "importDefer", FALSE, "none", FALSE, "-"),
    impSource |-> Item("any", "decl", "static", "importSource", FALSE, "none", FALSE, "-"),
    dynDefer |-> Item("any", "expr", "dynamic", "importDefer", FALSE, "none", FALSE, "string"),
    dynSource |-> Item("any", "expr", "dynamic", "importSource", FALSE, "none", FALSE, "string"),
    reqTpl |-> Item("any", "expr", "dynamic", "require", FALSE, "none", FALSE, "string"),
    dyn |-> Item("any", "expr", "dynamic", "import", FALSE, "none", FALSE, "string"),
    dynTpl |-> Item("any", "expr", "dynamic", "import", FALSE, "none", FALSE, "string"),
    dynTplParts |-> Item("any", "expr", "dynamic", "import", FALSE, "none", FALSE, "template"),
    dynExpr |-> Item("any", "expr", "dynamic", "import", FALSE, "none", FALSE, "expr"),
    dynJson |-> Item("any", "expr", "dynamic", "import", FALSE, "json", FALSE, "string"),
    dynUnknownAttr |-> Item("any", "expr", "dynamic", "import", FALSE, "unknown", FALSE, "string"),
    req |-> Item("any", "expr", "dynamic", "require", FALSE, "none", FALSE, "string"),
    notReq |-> Item("any", "expr", "none", "-", FALSE, "none", FALSE, "-"),
    metaResolve |-> Item("any", "expr", "none", "-", FALSE, "none", FALSE, "-"),
    tsTypesImp |-> Item("any", "decl", "static", "import", FALSE, "none", TRUE, "-"),
    denoTypesImp |-> Item("any", "decl", "static", "import", FALSE, "none", TRUE, "-"),
    tsTypesNotLast |-> Item("any", "decl", "static", "import", FALSE, "none", FALSE, "-"),
    tsTypesExport |-> Item("any", "decl", "static", "export", FALSE, "none", TRUE, "-"),
    jsdocType |-> Item("any", "decl", "jsdoc", "-", FALSE, "none", FALSE, "-"),
    jsdocImportTag |-> Item("any", "decl", "jsdoc", "-", FALSE, "none", FALSE, "-"),
    inert |-> Item("any", "decl", "none", "-", FALSE, "none", FALSE, "-") ]
ItemIds == DOMAIN Vocab

Headers == {"none", "refPath", "refTypes", "refTypesMode", "selfTypes", "jsxSource", "jsxSourceTypes", "shebangRefTypes", "refBoth"}
Footers == {"none", "sourceMap"}

\* a document is well formed for a media type when its items parse there
ItemOk(id, mt) == /\ (Vocab[id].syn = "ts" => IsTs(mt))
                  /\ (mt = "dts" => Vocab[id].stmt = "decl" /\ Vocab[id].cls # "jsdoc")
DocOk(doc, mt) == /\ \A j \in DOMAIN doc.items : ItemOk(doc.items[j], mt)
                  \* the source-map pragma is looked for after the last statement; a module without any statement is not decided
                  /\ (doc.footer = "sourceMap" => doc.items # <<>>)

\* dependency descriptors in source order
RECURSIVE DepsFrom(_, _)
DepsFrom(items, j) ==
  IF j > Len(items) THEN <<>>
  ELSE LET it == Vocab[items[j]] IN
       (IF it.cls \in {"static", "dynamic"}
        THEN << [type |-> it.cls, kind |-> it.kind, spec |-> j, side |-> it.side, attrs |-> it.attrs,
                 types |-> IF it.types THEN j ELSE 0, arg |-> it.arg] >>
        ELSE <<>>) \o DepsFrom(items, j + 1)

\* JSDoc type imports are collected for JavaScript media types only
RECURSIVE JsDocFrom(_, _)
JsDocFrom(items, j) ==
  IF j > Len(items) THEN <<>>
  ELSE (IF Vocab[items[j]].cls = "jsdoc" THEN <<j>> ELSE <<>>) \o JsDocFrom(items, j + 1)

Expected(doc, mt) ==
  [ deps |-> DepsFrom(doc.items, 1),
    jsdoc |-> IF IsJs(mt) THEN JsDocFrom(doc.items, 1) ELSE <<>>,
    \* triple-slash references: leading comments of the first statement (path wins when a comment carries both)
    tsRefs |-> CASE doc.header = "refPath" -> << [type |-> "path", mode |-> "none"] >>
                 [] doc.header = "refTypes" -> << [type |-> "types", mode |-> "none"] >>
                 [] doc.header = "refTypesMode" -> << [type |-> "types", mode |-> "import"] >>
                 [] doc.header = "shebangRefTypes" -> << [type |-> "types", mode |-> "none"] >>
                 [] doc.header = "refBoth" -> << [type |-> "path", mode |-> "none"] >>
                 [] OTHER -> <<>>,
    \* @ts-self-types is honoured for untyped media types
    selfTypes |-> doc.header = "selfTypes" /\ ~IsTs(mt),
    jsxSource |-> doc.header \in {"jsxSource", "jsxSourceTypes"} /\ IsJsx(mt),
    jsxSourceTypes |-> doc.header = "jsxSourceTypes" /\ IsJsx(mt),
    sourceMap |-> doc.footer = "sourceMap" ]
=============================================================================
