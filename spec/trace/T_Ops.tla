-------------------------------- MODULE T_Ops --------------------------------
(* Trace specification (impl -> spec) for graph queries.  Every line of the  *)
(* ndjson trace is one call of the real crate with its arguments and result; *)
(* `reset` installs the projection of the real graph.  Each event is checked *)
(* against the declarative operators of GraphOps (the property formulas of   *)
(* C02, C14, C15, C17, C18, C19); disagreement with the *as coded* operators *)
(* only is reported as DRIFT.  Assertions never block the trace.             *)
EXTENDS GraphOps, TLC, Json, IOUtils

Rec == ndJsonDeserialize(IOEnv.TRACEFILE)

VARIABLES l, g
vars == <<l, g>>

Bind(j) == [kind |-> j.kind, roots |-> j.roots, slots |-> j.slots, redirects |-> j.redirects,
            imports |-> j.imports, sch |-> j.sch, ctx |-> IF "ctx" \in DOMAIN j THEN SeqToSet(j.ctx) ELSE {}]
Empty == [kind |-> "all", roots |-> <<>>, slots |-> EmptyFn, redirects |-> EmptyFn, imports |-> <<>>, sch |-> EmptyFn, ctx |-> {}]

\* cond holds, or a catalogued known finding explains the failure, or it is a mismatch
Check(prop, what, cond, kid, kcond, obs, exp) ==
  IF cond THEN TRUE
  ELSE IF kcond THEN PrintT(<<"KNOWN", ToJson([l |-> l, prop |-> prop, id |-> kid, what |-> what])>>)
  ELSE PrintT(<<"MISMATCH", ToJson([l |-> l, prop |-> prop, what |-> what, obs |-> obs, exp |-> exp])>>)
Drift(what, cond) == IF cond THEN TRUE ELSE PrintT(<<"DRIFT", ToJson([l |-> l, what |-> what])>>)

Init == l = 1 /\ g = Empty

Reset == /\ Rec[l].ev = "reset" /\ g' = Bind(Rec[l].g) /\ l' = l + 1

\* ---------------------------------------------------------------- C15 / C02
WalkEv ==
  /\ Rec[l].ev = "walk"
  /\ LET e == Rec[l]
         skip == SeqToSet(e.skip)
         obs == SeqToSet(e.items)
         decl == WalkSet(g, e.roots, e.opts, skip)
         oper == Walk(g, e.roots, e.opts, skip)
         errs == { NormErr(x) : x \in SeqToSet(e.errors) }
         fails == ReachableFailures(g, e.roots, e.opts)
         coded == ErrorsCoded(g, e.roots, e.opts)
         f4 == F4Sig(g, e.roots, e.opts) /\ SeqToSet(e.errors) = coded
     IN /\ Check("C15", "walk-nodup", NoDupSeq([i \in DOMAIN e.items |-> e.items[i][1]]), "-", FALSE, e.items, "-")
        /\ Check("C15", "walk-set", obs = decl, "-", FALSE, obs, decl)
        /\ Drift("walk-order", oper = e.items)
        /\ IF skip # {} THEN TRUE ELSE
             /\ Check("C15", "errors-sound", errs \subseteq fails, "-", FALSE, errs, fails)
             /\ Check("C15", "errors-complete", fails \subseteq errs, "F4", f4, errs, fails)
             /\ Check("C02", "verdict", e.ok <=> (fails = {}), "F4", e.ok /\ f4, e.ok, fails)
             /\ (IF e.ok THEN TRUE ELSE Check("C02", "reported-error", NormErr(e.first) \in fails, "-", FALSE, e.first, fails))
             /\ Drift("errors-coded", SeqToSet(e.errors) = coded)
  /\ l' = l + 1 /\ UNCHANGED g

ValidEv ==
  /\ Rec[l].ev = "valid"
  /\ Check("C02", "valid", Rec[l].ok <=> (ReachableFailures(g, g.roots, ValidOpts) = {}), "-", FALSE, Rec[l].ok,
           ReachableFailures(g, g.roots, ValidOpts))
  /\ l' = l + 1 /\ UNCHANGED g

\* ---------------------------------------------------------------------- C14
LongOrCyclic(s) == HitsCycle(g, s) \/ ChainLen(g, s, {s}) >= MaxRedirectNodes - 1
\* F12 in general: some specifier on the redirect chain of s is a redirect source *and* has an entry of its own (a loader
\* that answers under another final specifier produces this outside cycles too): the walk yields that entry, lookups
\* follow the redirect past it
RECURSIVE ChainSet(_, _)
ChainSet(s, seen) == IF s \in seen \/ s \notin DOMAIN g.redirects THEN seen \cup {s} ELSE ChainSet(g.redirects[s], seen \cup {s})
EntryOnChain(s) == \E t \in ChainSet(s, {}) : t \in DOMAIN g.redirects /\ HasSlot(g, t)
LocS(s) == LongOrCyclic(s) \/ EntryOnChain(s)
ModOrNone(r) == IF r.t = "mod" THEN r ELSE [t |-> "none"]
LookupEv ==
  /\ Rec[l].ev = "lookup"
  /\ LET e == Rec[l]
         s == e.s
         reached == Reached(g, s)
         loc == LocS(s)
         tg == TryGet(g, s)
         viaT == IF reached.t = "mod" /\ g.slots[reached.s].cls = "js" /\ IsOk(g.slots[reached.s].tdep)
                 THEN Reached(g, g.slots[reached.s].tdep.ok) ELSE reached
         locT == loc \/ (reached.t = "mod" /\ g.slots[reached.s].cls = "js" /\ IsOk(g.slots[reached.s].tdep)
                         /\ LocS(g.slots[reached.s].tdep.ok))
     IN /\ Check("C14", "resolve-idempotent", e.resolve2 = e.resolve, "F11/F2", loc /\ e.resolve = Resolve(g, s), e.resolve2, e.resolve)
        /\ Check("C14", "get", e.get = ModOrNone(reached), "F2/F12", loc /\ e.get = Get(g, s), e.get, reached)
        /\ Check("C14", "try_get", e.tryget = reached, "F2/F12", loc /\ e.tryget = tg, e.tryget, reached)
        /\ Check("C14", "contains", e.contains <=> (reached.t = "mod"), "F2/F12", loc /\ (e.contains <=> Contains(g, s)), e.contains, reached)
        /\ Check("C14", "try_get_prefer_types", e.tgpt = viaT, "F2/F12", locT /\ e.tgpt = TryGetPreferTypes(g, s), e.tgpt, viaT)
        /\ Drift("resolve-coded", e.resolve = Resolve(g, s))
  /\ l' = l + 1 /\ UNCHANGED g

SpecifiersEv ==
  /\ Rec[l].ev = "specifiers"
  /\ LET obs == { <<Rec[l].list[i][1], Rec[l].list[i][2]>> : i \in DOMAIN Rec[l].list }
         decl == SpecifiersDecl(g)
         \* F3 (sources of >= 2-hop chains omitted) is fixed; what remains is the node cap / cycles of resolve()
         f3 == obs = SpecifiersCoded(g) /\ \A p \in decl \ obs : LocS(p[1])
         f12 == obs = SpecifiersCoded(g) /\ \A p \in obs \ decl : HitsCycle(g, p[1]) \/ HasSlot(g, p[1]) \/ EntryOnChain(p[1])
     IN /\ Check("C14", "specifiers-complete", decl \subseteq obs, "F2/F11", f3, obs, decl)
        /\ Check("C14", "specifiers-sound", obs \subseteq decl, "F12", f12, obs, decl)
  /\ l' = l + 1 /\ UNCHANGED g

ResDepEv ==
  /\ Rec[l].ev = "resdep"
  /\ LET e == Rec[l]
         ds == DepByText(DepsForReferrer(g, e.ref), e.text)
     IN IF ds = <<>> THEN Check("C14", "resolve_dependency-unknown-dep", IsNone(e.ret), "-", FALSE, e.ret, NONE)
        ELSE LET dep == ds[1]
                 decl == ResolveDepDecl(g, dep, e.pt)
                 coded == ResolveDepCoded(g, dep, e.pt)
                 loc == \E r \in {dep.code, dep.type} : IsOk(r) /\
                          (LocS(r.ok) \/ (Reached(g, r.ok).t = "mod" /\ IsOk(g.slots[Reached(g, r.ok).s].tdep)
                                                  /\ LocS(g.slots[Reached(g, r.ok).s].tdep.ok)))
                 f10 == e.pt /\ IsOk(dep.type) /\ IsNone(ReachMod(g, dep.type.ok)) /\ IsNone(e.ret)
             IN /\ Check("C14", "resolve_dependency", e.ret = decl, IF f10 THEN "F10" ELSE "F2/F11", e.ret = coded /\ (f10 \/ loc), e.ret, decl)
                /\ Drift("resolve_dependency-coded", e.ret = coded)
  /\ l' = l + 1 /\ UNCHANGED g

\* ---------------------------------------------------------------------- C17
\* specifiers whose load admission depends on the first-load context (family CTX), and
\* everything below them in either graph
Below(gg, S) == LET RECURSIVE Cl(_)
                    Cl(T) == LET U == T \cup UNION { Edges(gg, s, [kind |-> "all", dynamic |-> TRUE, checkJs |-> TRUE, fast |-> FALSE], {}) : s \in T }
                             IN IF U = T THEN T ELSE Cl(U)
                IN Cl(S)
DiffSpecs(a, b) == { s \in (DOMAIN a.slots) \cup (DOMAIN b.slots) :
                       ~(s \in DOMAIN a.slots /\ s \in DOMAIN b.slots /\ a.slots[s] = b.slots[s]) }
                   \cup { s \in (DOMAIN a.redirects) \cup (DOMAIN b.redirects) :
                       ~(s \in DOMAIN a.redirects /\ s \in DOMAIN b.redirects /\ a.redirects[s] = b.redirects[s]) }
CtxExplains(a, b, oa, ob) == g.ctx # {} /\ DiffSpecs(oa, ob) \subseteq (Below(a, g.ctx) \cup Below(b, g.ctx) \cup Below(g, g.ctx))

\* Family F20/F12 (redirect limit and cycles): which member of an over-long or cyclic redirect chain carries
\* the TooManyRedirects entry -- and hence where the chain is cut -- depends on which member was requested
\* first.  A difference is explained by it when every differing specifier is connected by redirects (of either
\* graph) to a TooManyRedirects entry, or lies below such a specifier.
TmrSpecs(gg) == { s \in DOMAIN gg.slots : gg.slots[s].k = "err" /\ gg.slots[s].ek = "toomanyredirects" }
RedirPairs(a, b) == { <<s, a.redirects[s]>> : s \in DOMAIN a.redirects } \cup { <<s, b.redirects[s]>> : s \in DOMAIN b.redirects }
RECURSIVE RedirClosure(_, _)
RedirClosure(R, S) == LET T == S \cup { p[2] : p \in { q \in R : q[1] \in S } } \cup { p[1] : p \in { q \in R : q[2] \in S } }
                      IN IF T = S THEN S ELSE RedirClosure(R, T)
TmrExplains(a, b, d) ==
  LET seed == TmrSpecs(a) \cup TmrSpecs(b)
      rel == RedirClosure(RedirPairs(a, b), seed)
  IN seed # {} /\ d \subseteq (rel \cup Below(a, rel) \cup Below(b, rel))

PruneEv ==
  /\ Rec[l].ev = "prune"
  /\ LET e == Rec[l]
         p == Bind(e.pruned)
         c == Bind(e.code)
         ctxk == CtxExplains(p, c, ObsCode(p), ObsCode(c))
         tmr == TmrExplains(p, c, DiffSpecs(ObsCode(p), ObsCode(c)))
     IN /\ Check("C17", "prune-obs-eq", ObsCode(p) = ObsCode(c), IF tmr THEN "F20" ELSE "CTX", ctxk \/ tmr, DiffSpecs(ObsCode(p), ObsCode(c)), "-")
        /\ Check("C17", "prune-no-types-left", NoTypesLeft(p), "-", FALSE, p, "-")
        /\ Check("C17", "prune-valid", e.validPruned = e.validCode, IF tmr THEN "F20" ELSE "CTX", ctxk \/ tmr, e.validPruned, e.validCode)
        /\ Drift("prune-coded", Prune(g).slots = p.slots /\ Prune(g).redirects = p.redirects)
  /\ l' = l + 1 /\ UNCHANGED g

\* ---------------------------------------------------------------------- C18
EntryObs(gg) == [ slots |-> [s \in DOMAIN gg.slots |-> SlotObs(gg.slots[s])], redirects |-> gg.redirects ]
SegOpts == { [kind |-> k, dynamic |-> d, checkJs |-> TRUE, fast |-> FALSE] : k \in {"all", "code", "types"}, d \in BOOLEAN }
SegmentEv ==
  /\ Rec[l].ev = "segment"
  /\ LET e == Rec[l]
         sg == Bind(e.seg)
         dg == Bind(e.direct)
         mods == { s \in DOMAIN sg.slots : sg.slots[s].k = "mod" }
         \* the segment answers like the original for everything reachable from its roots
         sameDeps == \A m \in mods : \A i \in DOMAIN sg.slots[m].deps : \A pt \in BOOLEAN :
                        ResolveDepCoded(sg, sg.slots[m].deps[i], pt) = ResolveDepCoded(g, sg.slots[m].deps[i], pt)
         sameLook == \A m \in mods : \A i \in DOMAIN sg.slots[m].deps : \A r \in {sg.slots[m].deps[i].code, sg.slots[m].deps[i].type} :
                        IsOk(r) => TryGet(sg, r.ok) = TryGet(g, r.ok) /\ TryGetPreferTypes(sg, r.ok) = TryGetPreferTypes(g, r.ok)
         sameValid == \A o \in SegOpts : ErrorsCoded(sg, e.roots, o) = ErrorsCoded(g, e.roots, o)
         notRoots == ~(SeqToSet(e.roots) \subseteq SeqToSet(g.roots))
         f7 == g.kind = "types" /\ \A s \in DiffSpecs(EntryObs(sg), EntryObs(dg)) :
                  (s \in DOMAIN dg.slots /\ s \notin DOMAIN sg.slots /\ dg.slots[s].k = "mod" /\ dg.slots[s].cls = "js"
                   /\ (~IsNone(dg.slots[s].tdep) \/ dg.slots[s].chk = "js"))
                  \/ s \in Below(dg, { x \in DOMAIN dg.slots : x \notin DOMAIN sg.slots })
         ctxk == CtxExplains(sg, dg, EntryObs(sg), EntryObs(dg))
         tmr == TmrExplains(sg, dg, DiffSpecs(EntryObs(sg), EntryObs(dg)))
         \* F12: an error entry stored at a specifier that is also a redirect source (inside a loader-built
         \* cycle): the walk -- hence the segment -- sees the entry, lookups on the original follow the redirect
         f12 == \E s \in DOMAIN g.slots : s \in DOMAIN g.redirects
         kid == IF f12 THEN "F12" ELSE "F7"
         kc == f12 \/ g.kind = "types"
         \* F23: a code-only walk does not visit configured type imports, so the segment of a code-only graph keeps the
         \* import records but not what they point at, while a direct code-only build loads those targets
         impT == UNION { { dg.imports[i].deps[j].type.ok : j \in { x \in DOMAIN dg.imports[i].deps : IsOk(dg.imports[i].deps[x].type) } } : i \in DOMAIN dg.imports }
         f23 == g.kind = "code" /\ impT # {} /\ \A s \in DiffSpecs(EntryObs(sg), EntryObs(dg)) :
                   s \notin DOMAIN sg.slots /\ s \notin DOMAIN sg.redirects /\ s \in (impT \cup Below(dg, impT))
         \* ... the same loss seen through a walk of the segment that includes types
         f23v == g.kind = "code" /\ \E t \in impT : t \notin DOMAIN sg.slots /\ t \notin DOMAIN sg.redirects
         kidV == IF f12 THEN "F12" ELSE IF f23v THEN "F23" ELSE "F7"
     IN /\ Check("C18", "segment-resolve_dependency", sameDeps, kid, kc, "-", "-")
        /\ Check("C18", "segment-lookups", sameLook, kid, kc, "-", "-")
        /\ Check("C18", "segment-validation", sameValid, kidV, kc \/ f23v, "-", "-")
        /\ (IF ~notRoots THEN TRUE ELSE Check("C18", "segment-equals-direct-build", EntryObs(sg) = EntryObs(dg), IF tmr THEN "F20" ELSE IF ctxk THEN "CTX" ELSE IF f23 THEN "F23" ELSE "F7", tmr \/ ctxk \/ f7 \/ f23,
                                DiffSpecs(EntryObs(sg), EntryObs(dg)), "-"))
        /\ Drift("segment-coded", Segment(g, e.roots).slots = sg.slots /\ Segment(g, e.roots).redirects = sg.redirects)
  /\ l' = l + 1 /\ UNCHANGED g

\* ---------------------------------------------------------------------- C19
FullObs(gg) == [ slots |-> [s \in DOMAIN gg.slots |-> IF gg.slots[s].k = "err" THEN SlotObs(gg.slots[s]) ELSE gg.slots[s]], redirects |-> gg.redirects ]
IncrEv ==
  /\ Rec[l].ev = "incr"
  /\ LET a == Bind(Rec[l].inc)  b == Bind(Rec[l].once)
         d == DiffSpecs(FullObs(a), FullObs(b))
         cyc == TmrExplains(a, b, d)
         ctxk == CtxExplains(a, b, FullObs(a), FullObs(b))
     IN /\ Check("C19", "incremental-equals-at-once", d = {}, IF cyc THEN "F20" ELSE "CTX", cyc \/ ctxk, d, "-")
        \* the root list is part of the graph: every specifier ever passed as a root is a root, whichever build brought it
        /\ Check("C19", "incremental-roots-equal-at-once", SeqToSet(a.roots) = SeqToSet(b.roots), "-", FALSE, a.roots, b.roots)
        \* ... and so are the configured type imports, whichever build brought the configuration
        /\ Check("C19", "incremental-imports-equal-at-once", a.imports = b.imports, "-", FALSE, a.imports, b.imports)
  /\ l' = l + 1 /\ UNCHANGED g
RebuildEv ==
  /\ Rec[l].ev = "rebuild"
  /\ Check("C19", "rebuild-known-roots-identity", Rec[l].same, "-", FALSE, Rec[l].same, TRUE)
  /\ l' = l + 1 /\ UNCHANGED g

\* C19 (second half): after reloading the edited specifiers, everything reachable from the roots in the
\* new sources equals the from-scratch build, and entries that are no longer reachable are unaltered.
\* g = graph before the reload.
ReloadEv ==
  /\ Rec[l].ev = "reload"
  /\ LET e == Rec[l]
         a == Bind(e.after)
         f == Bind(e.fresh)
         ed == SeqToSet(e.edited) \cup { Resolve(g, s) : s \in SeqToSet(e.edited) }
         reach == (DOMAIN f.slots) \cup (DOMAIN f.redirects)
         badSlots == { s \in DOMAIN f.slots : ~(s \in DOMAIN a.slots /\ FullObs(a).slots[s] = FullObs(f).slots[s]) }
         badRedir == { s \in DOMAIN f.redirects : ~(s \in DOMAIN a.redirects /\ a.redirects[s] = f.redirects[s]) }
         altered == { s \in (DOMAIN g.slots) \ (reach \cup ed) : ~(s \in DOMAIN a.slots /\ a.slots[s] = g.slots[s]) }
         ctxk == g.ctx # {} /\ (badSlots \cup badRedir) \subseteq (Below(a, g.ctx) \cup Below(f, g.ctx) \cup Below(g, g.ctx))
         tmr == TmrExplains(a, f, badSlots \cup badRedir)
     IN /\ Check("C19", "reload-reachable-equals-fresh", badSlots = {}, IF tmr THEN "F20" ELSE "CTX", ctxk \/ tmr, badSlots, "-")
        /\ Check("C19", "reload-redirects-equal-fresh", badRedir = {}, IF tmr THEN "F20" ELSE "CTX", ctxk \/ tmr, badRedir, "-")
        /\ Check("C19", "reload-unreachable-unaltered", altered = {}, "-", FALSE, altered, "-")
        /\ Check("C19", "reload-nothing-pending", \A s \in DOMAIN a.slots : a.slots[s].k # "pending", "-", FALSE, "-", "-")
  /\ l' = l + 1 /\ UNCHANGED g

Next == l <= Len(Rec) /\ (ReloadEv \/ Reset \/ WalkEv \/ ValidEv \/ LookupEv \/ SpecifiersEv \/ ResDepEv \/ PruneEv \/ SegmentEv \/ IncrEv \/ RebuildEv)
Spec == Init /\ [][Next]_vars

Accepted == IF TLCGet("stats").diameter - 1 = Len(Rec) THEN PrintT(<<"ACCEPTED", Len(Rec)>>)
            ELSE PrintT(<<"STOPPED_AT", TLCGet("stats").diameter, Len(Rec)>>)
=============================================================================
