-------------------------------- MODULE T_Det --------------------------------
(* C04 at implementation level: for one world, every run -- whatever the     *)
(* completion order of its loads (TLC-enumerated schedules replayed through  *)
(* gated loader futures, seeded random schedules, plain repetitions with     *)
(* fresh hasher state) -- must end in the same terminal observation:         *)
(* serialised graph, errors with ranges, redirects, package table, lockfile. *)
(* The observation is carried as a hash token computed by the harness.       *)
EXTENDS Naturals, Sequences, TLC, Json, IOUtils

Rec == ndJsonDeserialize(IOEnv.TRACEFILE)
VARIABLES l, cur, first
vars == <<l, cur, first>>

Init == l = 1 /\ cur = "-" /\ first = "-"
World == /\ Rec[l].ev = "world" /\ cur' = Rec[l].world /\ first' = "-" /\ l' = l + 1
Obs == /\ Rec[l].ev = "obs"
       /\ LET e == Rec[l] IN
          /\ IF e.world = cur THEN TRUE ELSE PrintT(<<"MISMATCH", ToJson([l |-> l, prop |-> "C04", what |-> "observation-outside-its-world", obs |-> e.world, exp |-> cur])>>)
          /\ IF first = "-" \/ e.hash = first THEN TRUE
             ELSE PrintT(<<"MISMATCH", ToJson([l |-> l, prop |-> "C04", what |-> "terminal-observation-not-unique", obs |-> [run |-> e.run, picks |-> e.picks, hash |-> e.hash], exp |-> first])>>)
          /\ IF ~e.pending THEN TRUE ELSE PrintT(<<"MISMATCH", ToJson([l |-> l, prop |-> "C04", what |-> "pending-entry-under-schedule", obs |-> e.run, exp |-> "-"])>>)
          /\ first' = IF first = "-" THEN e.hash ELSE first
       /\ l' = l + 1 /\ UNCHANGED cur
Note == /\ Rec[l].ev = "note" /\ PrintT(<<"DRIFT", ToJson([l |-> l, what |-> Rec[l].what])>>) /\ l' = l + 1 /\ UNCHANGED <<cur, first>>
Next == l <= Len(Rec) /\ (World \/ Obs \/ Note)
Spec == Init /\ [][Next]_vars
Accepted == IF TLCGet("stats").diameter - 1 = Len(Rec) THEN PrintT(<<"ACCEPTED", Len(Rec)>>)
            ELSE PrintT(<<"STOPPED_AT", TLCGet("stats").diameter, Len(Rec)>>)
=============================================================================
