----------------------------- MODULE T_FastCheck -----------------------------
(* Trace specification for fast check (C09, C10, C11, C12).  One `fc` event   *)
(* is one run of build_fast_check_type_graph on a world (workspace packages), *)
(* carrying per module: slot class (module / error / none), hashes of text    *)
(* and source map, recorded and declared dependencies, retained top-level     *)
(* names, export names of original and emitted module (star re-exports        *)
(* expanded), the concrete clauses evaluated by the projection (re-parse,     *)
(* dangling identifiers, erasure predicate, source map).  Runs of one world   *)
(* form a history: none, none, cold, warm, <edit>, none, stale, warm.         *)
EXTENDS Naturals, Sequences, FiniteSets, TLC, Json, IOUtils

Rec == ndJsonDeserialize(IOEnv.TRACEFILE)
VARIABLES l, bases, expect
vars == <<l, bases, expect>>
SeqToSet(sq) == { sq[i] : i \in DOMAIN sq }

Check(prop, what, cond, kid, kcond, obs) ==
  IF cond THEN TRUE
  ELSE IF kcond THEN PrintT(<<"KNOWN", ToJson([l |-> l, prop |-> prop, id |-> kid, what |-> what])>>)
  ELSE PrintT(<<"MISMATCH", ToJson([l |-> l, prop |-> prop, what |-> what, obs |-> obs, exp |-> "-"])>>)

Init == l = 1 /\ bases = <<>> /\ expect = [none |-> TRUE]
World == /\ Rec[l].ev = "fcworld" /\ bases' = <<>>
         /\ expect' = IF "public" \in DOMAIN Rec[l].expect \/ "codes" \in DOMAIN Rec[l].expect THEN Rec[l].expect ELSE [none |-> TRUE]
         /\ l' = l + 1
Edit == /\ Rec[l].ev = "fcedit" /\ l' = l + 1 /\ UNCHANGED <<bases, expect>>

Slot(p, m) == p.mods[m].slot
IsModule(p, m) == Slot(p, m) = "module"
Mods(p) == DOMAIN p.mods
Run ==
  /\ Rec[l].ev = "fc"
  /\ LET e == Rec[l]
         p == e.proj
         pkgs == DOMAIN p.pkgs
         files(pk) == SeqToSet(p.pkgs[pk].files)
         entries(pk) == SeqToSet(p.pkgs[pk].entrypoints)
         allOk(pk) == (\A m \in files(pk) : Slot(p, m) # "error") /\ (\A x \in entries(pk) : Slot(p, x) = "module")
         \* a published package that nothing imports (any more), or that only non-public declarations reference, is
         \* not analysed at all (that a cache never changes *whether* it is analysed is the cache-transparent clause)
         notInGraph(pk) == \A m \in files(pk) : Slot(p, m) \in {"absent", "none"}
         allErr(pk) == (\A m \in files(pk) : Slot(p, m) # "module") /\ (\A x \in entries(pk) : Slot(p, x) = "error")
         \* F8: with a warm or stale cache only the placement of the diagnostics differs: no module is emitted for the
         \* package and at least one entrypoint carries diagnostics, but not every entrypoint does
         f8(pk) == e.mode \in {"warm", "stale"} /\ (\A m \in files(pk) : Slot(p, m) # "module") /\ (\E x \in entries(pk) : Slot(p, x) = "error")
         modules == { m \in Mods(p) : IsModule(p, m) }
         isEntry(m) == \E pk \in pkgs : m \in entries(pk)
         hasBase == e.base + 1 \in DOMAIN bases
         b == bases[e.base + 1]
         sameOutput(m) == /\ (IsModule(p, m) <=> IsModule(b, m))
                          /\ (IsModule(p, m) => p.mods[m].text = b.mods[m].text /\ p.mods[m].map = b.mods[m].map
                                                /\ SeqToSet(p.mods[m].deps) = SeqToSet(b.mods[m].deps))
     IN /\ \A pk \in pkgs : Check("C12", "all-or-nothing", notInGraph(pk) \/ allOk(pk) \/ allErr(pk), "F8", f8(pk), [pkg |-> pk, slots |-> [m \in files(pk) |-> Slot(p, m)]])
        /\ Check("C12", "recorded-deps-equal-declared-deps", \A m \in modules : SeqToSet(p.mods[m].deps) = SeqToSet(p.mods[m].declaredDeps), "-", FALSE,
                 { m \in modules : SeqToSet(p.mods[m].deps) # SeqToSet(p.mods[m].declaredDeps) })
        /\ (IF e.mode = "none" \/ ~hasBase THEN TRUE
            ELSE Check("C12", "cache-transparent", \A m \in Mods(p) : sameOutput(m), "-", FALSE, [mode |-> e.mode, diff |-> { m \in Mods(p) : ~sameOutput(m) }]))
        /\ (IF e.mode = "none" /\ hasBase /\ e.step > e.base
            THEN Check("C12", "repeated-run-identical", p = b, "-", FALSE, { m \in Mods(p) : p.mods[m] # b.mods[m] }) ELSE TRUE)
        \* ---- C09
        /\ Check("C09", "emitted-module-parses", \A m \in modules : p.mods[m].reparse, "-", FALSE, { m \in modules : ~p.mods[m].reparse })
        \* F22: an `export default interface X` that is referenced by name from a public declaration is dropped
        \* unless `default` itself is part of the traced exports
        /\ Check("C09", "closed-under-reference", \A m \in modules : p.mods[m].reparse => p.mods[m].dangling = <<>>, "F22",
                 \A m \in modules : p.mods[m].reparse => SeqToSet(p.mods[m].dangling) \subseteq SeqToSet(p.mods[m].defaultIfaces),
                 { <<m, p.mods[m].dangling>> : m \in { x \in modules : p.mods[x].reparse /\ p.mods[x].dangling # <<>> } })
        \* ... per namespace: `typeof N` needs a value N, a type reference N needs a type N (a name may be declared in both)
        /\ Check("C09", "closed-under-reference-per-namespace", \A m \in modules : (p.mods[m].reparse /\ "nsDangling" \in DOMAIN p.mods[m]) => p.mods[m].nsDangling = <<>>,
                 "-", FALSE, { <<m, p.mods[m].nsDangling>> : m \in { x \in modules : p.mods[x].reparse /\ "nsDangling" \in DOMAIN p.mods[x] /\ p.mods[x].nsDangling # <<>> } })
        /\ Check("C11", "referenced-declarations-kept-per-namespace", \A m \in modules : (p.mods[m].reparse /\ "nsDangling" \in DOMAIN p.mods[m]) => p.mods[m].nsDangling = <<>>,
                 "-", FALSE, { <<m, p.mods[m].nsDangling>> : m \in { x \in modules : p.mods[x].reparse /\ "nsDangling" \in DOMAIN p.mods[x] /\ p.mods[x].nsDangling # <<>> } })
        /\ Check("C09", "imported-names-exported-by-emitted-counterpart",
                 \A m \in modules : (p.mods[m].reparse /\ "missingImports" \in DOMAIN p.mods[m]) => p.mods[m].missingImports = <<>>, "-", FALSE,
                 { <<m, p.mods[m].missingImports>> : m \in { x \in modules : p.mods[x].reparse /\ "missingImports" \in DOMAIN p.mods[x] /\ p.mods[x].missingImports # <<>> } })
        /\ Check("C09", "relative-specifiers-resolve", \A m \in modules : p.mods[m].reparse => p.mods[m].unresolvedSpecifiers = <<>>, "-", FALSE, "-")
        /\ Check("C09", "source-map-well-formed-and-faithful", \A m \in modules : p.mods[m].reparse => p.mods[m].mapOk.ok, "-", FALSE,
                 { <<m, p.mods[m].mapOk>> : m \in { x \in modules : p.mods[x].reparse /\ ~p.mods[x].mapOk.ok } })
        \* ---- C10
        /\ Check("C10", "no-executable-logic-no-inference-needed", \A m \in modules : p.mods[m].reparse => p.mods[m].erasure = <<>>, "-", FALSE,
                 { <<m, p.mods[m].erasure>> : m \in { x \in modules : p.mods[x].reparse /\ p.mods[x].erasure # <<>> } })
        \* ---- C11
        /\ Check("C11", "entrypoint-exports-preserved",
                 \A m \in modules : (p.mods[m].reparse /\ isEntry(m)) => SeqToSet(p.mods[m].emitExports) = SeqToSet(p.mods[m].origExports), "-", FALSE,
                 { <<m, p.mods[m].emitExports, p.mods[m].origExports>> : m \in { x \in modules : p.mods[x].reparse /\ isEntry(x)
                      /\ SeqToSet(p.mods[x].emitExports) # SeqToSet(p.mods[x].origExports) } })
        /\ Check("C11", "other-modules-export-a-subset", \A m \in modules : p.mods[m].reparse => SeqToSet(p.mods[m].emitExports) \subseteq SeqToSet(p.mods[m].origExports),
                 "-", FALSE, "-")
        /\ Check("C11", "nothing-new-at-top-level", \A m \in modules : p.mods[m].reparse => SeqToSet(p.mods[m].retained) \subseteq SeqToSet(p.mods[m].origTop), "-", FALSE, "-")
        /\ Check("C11", "declaration-kinds-kept", \A m \in modules : p.mods[m].reparse =>
                    \A n \in (DOMAIN p.mods[m].kinds) \cap (DOMAIN p.mods[m].origKinds) : p.mods[m].kinds[n] = p.mods[m].origKinds[n], "-", FALSE, "-")
        /\ Check("C11", "signatures-carried-over", \A m \in modules : (p.mods[m].reparse /\ "sigDiffs" \in DOMAIN p.mods[m]) => p.mods[m].sigDiffs = <<>>, "-", FALSE,
                 { <<m, p.mods[m].sigDiffs>> : m \in { x \in modules : p.mods[x].reparse /\ "sigDiffs" \in DOMAIN p.mods[x] /\ p.mods[x].sigDiffs # <<>> } })
        \* ---- spec -> impl: the retained declarations are exactly the public set FastCheck.tla predicts
        /\ (IF "public" \in DOMAIN expect
            THEN /\ Check("C09", "retained-equals-public-set-closure", \A m \in DOMAIN expect.public : m \in Mods(p) =>
                             (IsModule(p, m) => SeqToSet(expect.public[m]) \subseteq SeqToSet(p.mods[m].retained)), "F22",
                          \A m \in DOMAIN expect.public : (m \in Mods(p) /\ IsModule(p, m)) =>
                             (SeqToSet(expect.public[m]) \ SeqToSet(p.mods[m].retained)) \subseteq SeqToSet(p.mods[m].defaultIfaces),
                          [m \in DOMAIN expect.public |-> IF m \in Mods(p) /\ IsModule(p, m) THEN p.mods[m].retained ELSE <<>>])
                 /\ Check("C11", "retained-equals-public-set-minimality", \A m \in DOMAIN expect.public : m \in Mods(p) =>
                             (IsModule(p, m) => (SeqToSet(p.mods[m].retained) \cap SeqToSet(expect.decls[m])) \subseteq SeqToSet(expect.public[m])), "-", FALSE,
                          [m \in DOMAIN expect.public |-> IF m \in Mods(p) /\ IsModule(p, m) THEN p.mods[m].retained ELSE <<>>])
                 /\ Check("C12", "module-emitted-iff-public", \A m \in DOMAIN expect.public : m \in Mods(p) =>
                             (IsModule(p, m) <=> expect.traced[m]), "-", FALSE, [m \in Mods(p) |-> Slot(p, m)])
            ELSE TRUE)
        \* ---- spec -> impl: the outcome Transform.tla predicts for a declaration shape: emitted (and erased) or exactly these diagnostics
        /\ (IF "codes" \in DOMAIN expect
            THEN LET m == "shape/mod.ts"
                     codes == SeqToSet(expect.codes)
                     \* F19: an expando property with a non-inferable value is dropped without a diagnostic
                     f19 == expect.shape.fam = "misc" /\ expect.shape.misc = "expando-call" /\ IsModule(p, m)
                 IN Check("C10", "emit-or-diagnostic-as-the-table-says",
                          IF codes = {} THEN IsModule(p, m) ELSE (Slot(p, m) = "error" /\ SeqToSet(p.mods[m].diag) = codes),
                          "F19", f19, [shape |-> expect.shape, slot |-> Slot(p, m), diag |-> IF Slot(p, m) = "error" THEN p.mods[m].diag ELSE <<>>])
            ELSE TRUE)
        \* ---- spec -> impl: the parameter list Transform.tla predicts (optional / default-parameter normalisation)
        /\ (IF "sig" \in DOMAIN expect /\ IsModule(Rec[l].proj, "shape/mod.ts")
            THEN LET pm == Rec[l].proj.mods["shape/mod.ts"]
                     obs == IF "sig" \in DOMAIN pm THEN pm.sig ELSE <<>>
                 IN Check("C11", "signature-carried-over-with-default-parameter-normalisation",
                          Len(obs) = Len(expect.sig) /\ \A i \in DOMAIN obs : obs[i].form = expect.sig[i].form /\ obs[i].o = expect.sig[i].o /\ obs[i].t = expect.sig[i].t,
                          "-", FALSE, [shape |-> expect.shape, observed |-> obs, expected |-> expect.sig])
            ELSE TRUE)
        /\ bases' = Append(bases, p)
  /\ l' = l + 1 /\ UNCHANGED expect
Next == l <= Len(Rec) /\ (World \/ Edit \/ Run)
Spec == Init /\ [][Next]_vars
Accepted == IF TLCGet("stats").diameter - 1 = Len(Rec) THEN PrintT(<<"ACCEPTED", Len(Rec)>>)
            ELSE PrintT(<<"STOPPED_AT", TLCGet("stats").diameter, Len(Rec)>>)
=============================================================================
