------------------------------ MODULE T_Symbols ------------------------------
(* Trace specification for C16: projected symbol tables must be well-formed   *)
(* trees (Symbols!WellFormedTree), resolved export key sets must equal the    *)
(* ES fixpoint the model predicts (TLC-generated star re-export programs),    *)
(* and go-to-definition from every symbol terminates with definitions or      *)
(* explicit unresolved markers only.                                          *)
EXTENDS Symbols, TLC, Json, IOUtils

Rec == ndJsonDeserialize(IOEnv.TRACEFILE)
VARIABLES l
vars == <<l>>
Init == l = 1
Fail(what, obs) == PrintT(<<"MISMATCH", ToJson([l |-> l, prop |-> "C16", what |-> what, obs |-> obs, exp |-> "-"])>>)

World == Rec[l].ev = "symworld" /\ l' = l + 1
Tab == /\ Rec[l].ev = "symtab"
       /\ (IF WellFormedTree(Rec[l].tab) THEN TRUE ELSE Fail("symbol-table-not-a-well-formed-tree", Rec[l].module))
       /\ l' = l + 1
Exports == /\ Rec[l].ev = "exports"
           /\ (IF ~Rec[l].hasExpect \/ SeqSet(Rec[l].keys) = SeqSet(Rec[l].expect) THEN TRUE
               ELSE Fail("export-keys-differ-from-es-fixpoint", [module |-> Rec[l].module, keys |-> Rec[l].keys, expect |-> Rec[l].expect]))
           /\ (IF ~Rec[l].hasExpect \/ OwnWins(SeqSet(Rec[l].own), Rec[l].providers, Rec[l].module) THEN TRUE
               ELSE Fail("own-export-does-not-take-precedence", [module |-> Rec[l].module, own |-> Rec[l].own, providers |-> Rec[l].providers]))
           /\ l' = l + 1
Defs == /\ Rec[l].ev = "defs"
        /\ (IF Rec[l].bad = <<>> THEN TRUE ELSE Fail("go-to-definition", Rec[l].bad))
        /\ l' = l + 1
Next == l <= Len(Rec) /\ (World \/ Tab \/ Exports \/ Defs)
Spec == Init /\ [][Next]_vars
Accepted == IF TLCGet("stats").diameter - 1 = Len(Rec) THEN PrintT(<<"ACCEPTED", Len(Rec)>>)
            ELSE PrintT(<<"STOPPED_AT", TLCGet("stats").diameter, Len(Rec)>>)
=============================================================================
