-------------------------------- MODULE T_Info --------------------------------
(* C13 (second half): a graph built from module information embedded in a    *)
(* JSR version manifest (moduleGraph2, or the older moduleGraph1) is identical*)
(* -- modules, dependencies, redirects, errors -- to the graph built by       *)
(* parsing the same package sources, whatever part of the package is cached.  *)
(* One `variants` event carries the projections of all builds of one world:   *)
(* info in {none, v2, v1} x cache in {none, all, some} x graph kind.          *)
EXTENDS GraphOps, TLC, Json, IOUtils

Rec == ndJsonDeserialize(IOEnv.TRACEFILE)
VARIABLES l
vars == <<l>>
Init == l = 1

\* what the property names: entries with their kind or error, every dependency field, redirects
Obs(g) == [ slots |-> [s \in DOMAIN g.slots |-> IF g.slots[s].k = "err" THEN [k |-> "err", ek |-> g.slots[s].ek, ref |-> g.slots[s].ref] ELSE g.slots[s]],
            redirects |-> g.redirects ]
Diff(a, b) == { s \in (DOMAIN a.slots) \cup (DOMAIN b.slots) : ~(s \in DOMAIN a.slots /\ s \in DOMAIN b.slots /\ a.slots[s] = b.slots[s]) }

Variants ==
  /\ Rec[l].ev = "variants"
  /\ LET vs == Rec[l].variants
         base(k) == CHOOSE i \in DOMAIN vs : vs[i].kind = k /\ vs[i].info = "none"
         bad == { i \in DOMAIN vs : Obs(vs[i].g) # Obs(vs[base(vs[i].kind)].g) }
     IN IF bad = {} THEN TRUE
        ELSE LET i == CHOOSE x \in bad : TRUE IN
             PrintT(<<"MISMATCH", ToJson([l |-> l, prop |-> "C13", what |-> "manifest-shortcut-differs-from-parsing",
                      obs |-> [info |-> vs[i].info, cache |-> vs[i].cache, kind |-> vs[i].kind,
                               diff |-> Diff(Obs(vs[i].g), Obs(vs[base(vs[i].kind)].g))], exp |-> "-"])>>)
  /\ l' = l + 1
Next == l <= Len(Rec) /\ Variants
Spec == Init /\ [][Next]_vars
Accepted == IF TLCGet("stats").diameter - 1 = Len(Rec) THEN PrintT(<<"ACCEPTED", Len(Rec)>>)
            ELSE PrintT(<<"STOPPED_AT", TLCGet("stats").diameter, Len(Rec)>>)
=============================================================================
