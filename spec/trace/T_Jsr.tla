-------------------------------- MODULE T_Jsr --------------------------------
(* Trace specification for builds of registry worlds (impl -> spec).         *)
(*   C06 (graph level): every on_resolve(req, nv) event, in order, must be   *)
(*        the version the property statement selects given what the graph    *)
(*        had selected so far (lockfile seeds included), the cached-manifest *)
(*        probe, the cutoff date and the exclusion lists.                    *)
(*   C07: redirects of jsr: specifiers, unknown-export errors, the package   *)
(*        table (mappings, exports used, per-package requirements, yanked).  *)
(*   C05: checksum obligations over the loader / locker events.              *)
EXTENDS Jsr, TLC, Json, IOUtils

Rec == ndJsonDeserialize(IOEnv.TRACEFILE)

VARIABLES l, f, sel, log, loads, restarted, sets
vars == <<l, f, sel, log, loads, restarted, sets>>
\* f: world facts; sel: name -> set of versions selected so far; log: resolutions since the last restart;
\* loads: loader calls of this build; sets: lockfile writes of this build

Check(prop, what, cond, kid, kcond, obs, exp) ==
  IF cond THEN TRUE
  ELSE IF kcond THEN PrintT(<<"KNOWN", ToJson([l |-> l, prop |-> prop, id |-> kid, what |-> what])>>)
  ELSE PrintT(<<"MISMATCH", ToJson([l |-> l, prop |-> prop, what |-> what, obs |-> obs, exp |-> exp])>>)

Init == l = 1 /\ f = [reg |-> EmptyFn] /\ sel = EmptyFn /\ log = <<>> /\ loads = <<>> /\ restarted = FALSE /\ sets = <<>>

Names == DOMAIN f.reg
SeedSel(ff) == [n \in DOMAIN ff.reg |-> SeqToSet(ff.seedByName[n])]

Reset ==
  /\ Rec[l].ev = "jsrreset"
  /\ f' = Rec[l].facts /\ sel' = SeedSel(Rec[l].facts) /\ log' = <<>> /\ loads' = <<>> /\ restarted' = FALSE /\ sets' = <<>>
  /\ l' = l + 1

(***************************************************************************)
(* C05 per call: a load of a resource whose checksum is known presents it. *)
(***************************************************************************)
IsRegFile(s) == s \in DOMAIN f.owner
OwnerV(s) == f.owner[s]       \* [name, v, path]
TamperOf(s) == LET o == OwnerV(s) IN
               IF o.path \in DOMAIN f.reg[o.name].versions[o.v].tamper THEN f.reg[o.name].versions[o.v].tamper[o.path] ELSE "none"
\* expected checksum of a load call, "" when none is known
ExpectedSum(e) ==
  IF e.meta = "ver" THEN
     LET nv == e.mname \o "@" \o e.mver IN
     IF f.lockEnabled /\ nv \in DOMAIN f.lockPkg /\ e.setting # "only"
     THEN (IF f.lockPkg[nv] = "match" /\ nv \in DOMAIN f.metaSums THEN f.metaSums[nv] ELSE "WRONG") ELSE ""
  ELSE IF e.meta = "pkg" THEN ""
  ELSE IF IsRegFile(e.s) THEN
       \* a file without manifest entry is requested with a sentinel checksum so that the loader decides (4465-4470)
       (IF TamperOf(e.s) = "nomanifest" THEN "package-manifest-missing-checksum"
        ELSE IF e.s \in DOMAIN f.sums THEN f.sums[e.s] ELSE "ANY")
  ELSE IF f.lockEnabled /\ e.s \in DOMAIN f.lockRemote THEN (IF f.lockRemote[e.s] = "match" /\ e.s \in DOMAIN f.sums THEN f.sums[e.s] ELSE "WRONG")
  ELSE ""
LoadEv ==
  /\ Rec[l].ev = "load"
  /\ LET e == Rec[l]
         x == ExpectedSum(e)
         \* F9: the cache-only probe of a version manifest presents no checksum even when the lockfile has one
         f9 == e.meta = "ver" /\ e.setting = "only" /\ e.sum = ""
         probeLock == e.meta = "ver" /\ e.setting = "only" /\ f.lockEnabled /\ (e.mname \o "@" \o e.mver) \in DOMAIN f.lockPkg
     IN /\ Check("C05", "checksum-presented",
                 IF x = "" THEN (IF probeLock THEN e.sum # "" ELSE TRUE)
                 ELSE IF x = "WRONG" \/ x = "ANY" THEN e.sum # "" ELSE e.sum = x,
                 "F9", f9 /\ probeLock, e, x)
  /\ (IF Rec[l].restart THEN sel' = [n \in Names |-> {}] /\ log' = <<>> /\ restarted' = TRUE /\ loads' = <<Rec[l]>>
      ELSE UNCHANGED <<sel, log, restarted>> /\ loads' = Append(loads, Rec[l]))
  /\ l' = l + 1 /\ UNCHANGED <<f, sets>>

(***************************************************************************)
(* C06 at graph level                                                      *)
(***************************************************************************)
CutoffEff(n) == EffectiveCutoff(f.cutoff, f.reg[n].exByName, f.reg[n].exByPrefix)
\* the cache-only probe of a version manifest succeeds when the manifest is cached and the load answers with content
CachedOf(n) == IF f.preferCached
               THEN { v \in DOMAIN f.reg[n].versions : f.reg[n].versions[v].metaCached /\ f.reg[n].versions[v].meta \in {"ok", "garbage"} }
               ELSE {}
ResolvedEv ==
  /\ Rec[l].ev = "jsr_resolved"
  /\ LET e == Rec[l]
         n == e.name
         known == n \in Names /\ e.req \in DOMAIN f.matches
         exp == SelectG(f.reg[n].versions, f.rank[n], SeqToSet(f.matches[e.req]), sel[n], CachedOf(n), CutoffEff(n))
     IN /\ IF ~known THEN PrintT(<<"MISMATCH", ToJson([l |-> l, prop |-> "C06", what |-> "resolution-of-unknown-requirement", obs |-> e, exp |-> "-"])>>)
           ELSE Check("C06", "selected-version", exp.t = "ok" /\ exp.v = e.v, "-", FALSE, e, exp)
        /\ sel' = IF n \in Names THEN [sel EXCEPT ![n] = @ \cup {e.v}] ELSE sel
        /\ log' = Append(log, [req |-> e.req, name |-> n, v |-> e.v,
                               yanked |-> (known /\ e.v \in DOMAIN f.reg[n].versions /\ f.reg[n].versions[e.v].yanked)])
  /\ l' = l + 1 /\ UNCHANGED <<f, loads, restarted, sets>>

LockSetEv ==
  /\ Rec[l].ev \in {"lock_set", "lock_set_pkg"}
  /\ LET e == Rec[l] IN
     \* existing lockfile entries are never overwritten
     Check("C05", "lock-no-overwrite", e.had = "" \/ e.had = e.sum, "-", FALSE, e, "-")
  /\ sets' = Append(sets, Rec[l])
  /\ l' = l + 1 /\ UNCHANGED <<f, sel, log, loads, restarted>>

OtherEv ==
  /\ Rec[l].ev \in {"lock_get", "on_load"}
  /\ l' = l + 1 /\ UNCHANGED <<f, sel, log, loads, restarted, sets>>

(***************************************************************************)
(* C07 (and the quiescent part of C05 / C06) on the built graph            *)
(***************************************************************************)
LastRes(req) == LET idx == { i \in DOMAIN log : log[i].req = req } IN log[CHOOSE i \in idx : \A j \in idx : j <= i]
ResolvedReqs == { log[i].req : i \in DOMAIN log }
JsrSpecs == { s \in DOMAIN f.specs : f.specs[s].kind = "jsr" }
NvStr(n, v) == n \o "@" \o v
BuiltEv ==
  /\ Rec[l].ev = "jsrbuilt"
  /\ LET e == Rec[l]
         g == e.g
         pk == e.pkgs
         redir(s) == g.redirects[s]
         \* --- mappings: every requirement resolved in this pass maps to the last version resolved for it
         mapOk == \A r \in ResolvedReqs : r \in DOMAIN pk.mappings /\ pk.mappings[r].name = LastRes(r).name /\ pk.mappings[r].v = LastRes(r).v
         mapOnly == \A r \in DOMAIN pk.mappings : r \in ResolvedReqs \/ (~restarted /\ r \in DOMAIN f.seeds /\ pk.mappings[r].v = f.seeds[r])
         \* --- redirects of jsr: specifiers go through the export map of the selected version
         redirected == { s \in JsrSpecs : s \in DOMAIN g.redirects }
         \* (a requirement may be selected more than once during one build -- each pending specifier is resolved on its
         \* own, and a later one can unify with a version selected in between; the table keeps the last selection --
         \* so the redirect is checked against the selections made for its requirement in this build, not against the table)
         redirOk(s) ==
           LET sp == f.specs[s]
               sels == { i \in DOMAIN log : log[i].req = sp.req /\ log[i].name \in Names /\ log[i].v \in DOMAIN f.reg[log[i].name].versions }
           IN /\ sp.req \in DOMAIN pk.mappings
              /\ \E i \in sels : LET vi == f.reg[log[i].name].versions[log[i].v] IN
                    /\ sp.export \in DOMAIN vi.exports
                    /\ (vi.exports[sp.export] \in DOMAIN vi.files => redir(s) = vi.files[vi.exports[sp.export]])
         \* --- unknown export: the error lists exactly the manifest's exports
         unkOk(s) ==
           LET sp == f.specs[s]
               sels == { i \in DOMAIN log : log[i].req = sp.req /\ log[i].name \in Names /\ log[i].v \in DOMAIN f.reg[log[i].name].versions }
           IN /\ sp.req \in DOMAIN pk.mappings
              /\ \E i \in sels : LET vi == f.reg[log[i].name].versions[log[i].v] IN
                    sp.export \notin DOMAIN vi.exports /\ SeqToSet(g.slots[s].exports) = DOMAIN vi.exports
         unknown == { s \in JsrSpecs : s \in DOMAIN g.slots /\ g.slots[s].k = "err" /\ g.slots[s].ek = "jsr:UnknownExport" }
         \* --- exports used per package
         \* exports used per package version: by the registry file each redirected jsr: specifier ended at
         usedExports(nv) == { <<f.specs[s].export, f.owner[redir(s)].path>> :
                              s \in { x \in redirected : redir(x) \in DOMAIN f.owner /\ NvStr(f.owner[redir(x)].name, f.owner[redir(x)].v) = nv } }
         exportsOk == \A nv \in DOMAIN pk.exports :
                         { <<k, pk.exports[nv][k]>> : k \in DOMAIN pk.exports[nv] } = { <<p[1], "." \o p[2]>> : p \in usedExports(nv) }
         \* --- requirements imported by the modules of a package are attributed to that package
         \* modules of the package that were analysed (a JS module entry); for soundness also those that ended as an error
         pkgMods(nv) == { m \in DOMAIN g.slots : g.slots[m].k = "mod" /\ g.slots[m].cls = "js" /\ m \in DOMAIN f.owner /\ NvStr(f.owner[m].name, f.owner[m].v) = nv }
         pkgTouched(nv) == { m \in DOMAIN g.slots : m \in DOMAIN f.owner /\ NvStr(f.owner[m].name, f.owner[m].v) = nv }
         importedBy(nv) == UNION { { f.imports[m][i].dep : i \in DOMAIN f.imports[m] } : m \in pkgMods(nv) }
         maybeImportedBy(nv) == UNION { { f.imports[m][i].dep : i \in DOMAIN f.imports[m] } : m \in pkgTouched(nv) }
         staticBy(nv) == UNION { { f.imports[m][i].dep : i \in { j \in DOMAIN f.imports[m] : ~f.imports[m][j].dyn } } : m \in pkgMods(nv) }
         depsOf(nv) == IF nv \in DOMAIN pk.deps THEN SeqToSet(pk.deps[nv]) ELSE {}
         pkgsInGraph == { nv \in { NvStr(f.owner[m].name, f.owner[m].v) : m \in { x \in DOMAIN g.slots : x \in DOMAIN f.owner /\ g.slots[x].k = "mod" } } : TRUE }
         depsSound == \A nv \in DOMAIN pk.deps : depsOf(nv) \subseteq maybeImportedBy(nv)
         depsComplete == \A nv \in pkgsInGraph : importedBy(nv) \subseteq depsOf(nv)
         \* F18: a requirement that is only imported dynamically is attributed to the first importing package only
         f18 == \A nv \in pkgsInGraph : staticBy(nv) \subseteq depsOf(nv)
         yankedExp == { NvStr(log[i].name, log[i].v) : i \in { j \in DOMAIN log : log[j].yanked } }
         \* --- C03: every failed load is an error entry of the affected specifier; nothing else gets an entry
         contentLoads == { i \in DOMAIN loads : loads[i].meta = "" /\ loads[i].setting # "only" }
         laterOk(i) == \E j \in contentLoads : j > i /\ loads[j].s = loads[i].s /\ loads[j].resp \in {"module", "external", "redirect"}
         failed == { loads[i].s : i \in { j \in contentLoads : loads[j].resp \in {"none", "err", "integrity"} /\ ~laterOk(j) } }
         redirectedInPkg == { loads[i].s : i \in { j \in contentLoads : loads[j].resp = "redirect" /\ IsRegFile(loads[j].s) } }
         depTargets == UNION { UNION { (IF g.slots[m].deps[i].code.t = "ok" THEN {g.slots[m].deps[i].code.ok} ELSE {})
                                       \cup (IF g.slots[m].deps[i].type.t = "ok" THEN {g.slots[m].deps[i].type.ok} ELSE {})
                                       : i \in DOMAIN g.slots[m].deps } : m \in { x \in DOMAIN g.slots : g.slots[x].k = "mod" } }
         requested == { loads[i].s : i \in DOMAIN loads } \cup DOMAIN f.specs \cup SeqToSet(g.roots)
                      \cup { g.redirects[s] : s \in DOMAIN g.redirects } \cup depTargets
                      \cup UNION { SeqToSet(f.targets[m]) : m \in (DOMAIN g.slots) \cap (DOMAIN f.targets) }
         \* the entry the walk reaches for s (one redirect level suffices for loader-made redirects here)
         isErr(s) == LET t == IF s \in DOMAIN g.redirects /\ s \notin DOMAIN g.slots THEN g.redirects[s] ELSE s
                     IN t \in DOMAIN g.slots /\ g.slots[t].k = "err"
         \* --- C05: content the loader rejected is never admitted (after at most one cache-bypassing retry for
         \*     non-registry URLs; none for registry files); the retry presents the same checksum
         integ == { i \in contentLoads : loads[i].resp = "integrity" }
         nextOf(i) == { j \in contentLoads : j > i /\ loads[j].s = loads[i].s /\ \A k \in contentLoads : (k > i /\ k < j) => loads[k].s # loads[i].s }
         retryOk == \A i \in { x \in integ : loads[x].setting = "use" } :
                       IF IsRegFile(loads[i].s) THEN \A j \in nextOf(i) : loads[j].setting # "reload"
                       ELSE /\ nextOf(i) # {}
                            /\ \A j \in nextOf(i) : /\ loads[j].setting = "reload" /\ loads[j].sum = loads[i].sum
                                                      /\ \A k \in nextOf(j) : loads[k].setting # "reload"
         notAdmitted == \A i \in integ : laterOk(i) \/ isErr(loads[i].s)
         \* --- C05: lockfile writes: every newly seen remote (non-registry, non-declaration) module and every manifest
         newRemote == { s \in DOMAIN g.slots : g.slots[s].k = "mod" /\ g.slots[s].cls = "js" /\ g.slots[s].mt # "dts" /\ ~IsRegFile(s)
                          /\ s \in DOMAIN g.sch /\ g.sch[s] \in {"http", "https"}
                          /\ (s \in DOMAIN f.sums \/ ("staleRedir" \in DOMAIN f /\ s \in SeqToSet(f.staleRedir))) }
         \* the bytes used for s: what the last successful load of s served
         lastServed(s) == LET idx == { i \in contentLoads : loads[i].s = s /\ loads[i].resp = "module" }
                          IN IF idx = {} THEN "no-successful-load" ELSE loads[CHOOSE i \in idx : \A j \in idx : j <= i].served
         remoteWritten == \A s \in newRemote : f.lockEnabled => (s \in DOMAIN e.lockRemote /\
                             (IF s \in DOMAIN f.lockRemote THEN TRUE ELSE e.lockRemote[s] = lastServed(s)))
         \* nothing else is written: declaration files, registry files and failed loads get no remote checksum
         remoteOnly == \A s \in DOMAIN e.lockRemote : s \in DOMAIN f.lockRemote \/ s \in newRemote
         \* a checksummed URL that redirects is rejected
         redirWithSum == { loads[i].s : i \in { j \in contentLoads : loads[j].resp = "redirect" /\ loads[j].sum # "" /\ ~IsRegFile(loads[j].s) } }
     IN /\ Check("C05", "checksummed-redirect-rejected", \A s \in redirWithSum : isErr(s) /\ s \notin DOMAIN g.redirects, "-", FALSE, redirWithSum, "-")
        /\ Check("C05", "retry-once-for-non-registry-none-for-registry", retryOk, "-", FALSE, "-", "-")
        /\ Check("C05", "rejected-content-not-admitted", notAdmitted, "-", FALSE, "-", "-")
        /\ Check("C05", "new-remote-checksums-recorded", remoteWritten, "-", FALSE, e.lockRemote, "-")
        /\ Check("C05", "no-other-remote-checksums", remoteOnly, "-", FALSE, e.lockRemote, newRemote)
        /\ Check("C05", "manifest-checksums-recorded",
                 \A i \in DOMAIN log : f.lockEnabled =>
                    LET nv == NvStr(log[i].name, log[i].v) IN
                    (nv \in DOMAIN e.lockPkgs) \/ ~(log[i].name \in Names /\ log[i].v \in DOMAIN f.reg[log[i].name].versions
                                                    /\ f.reg[log[i].name].versions[log[i].v].meta = "ok")
                    \/ (nv \in DOMAIN f.lockPkg /\ f.lockPkg[nv] = "wrong"),
                 "-", FALSE, e.lockPkgs, log)
        /\ Check("C03", "failed-load-is-error-entry", \A s \in failed \cup redirectedInPkg : isErr(s), "-", FALSE,
                 { s \in failed \cup redirectedInPkg : ~isErr(s) }, "-")
        /\ Check("C03", "entries-only-for-requested-specifiers", DOMAIN g.slots \subseteq requested, "-", FALSE, (DOMAIN g.slots) \ requested, "-")
        /\ Check("C03", "entry-stored-under-its-own-specifier", \A s \in DOMAIN g.slots : "keyMismatch" \notin DOMAIN g.slots[s], "-", FALSE,
                 { s \in DOMAIN g.slots : "keyMismatch" \in DOMAIN g.slots[s] }, "-")
        /\ Check("C03", "nothing-pending", \A s \in DOMAIN g.slots : g.slots[s].k # "pending", "-", FALSE, "-", "-")
        /\ Check("C03", "error-has-referrer", \A s \in DOMAIN g.slots : (g.slots[s].k = "err" /\ s \notin SeqToSet(g.roots)
                    /\ g.slots[s].ek \notin {"parse", "wasmparse", "decode"}) => g.slots[s].ref # "-", "-", FALSE,
                 { s \in DOMAIN g.slots : g.slots[s].k = "err" /\ g.slots[s].ref = "-" }, "-")
        /\ /\ Check("C07", "mappings-follow-resolutions", mapOk, "-", FALSE, pk.mappings, log)
        /\ Check("C07", "mappings-only-resolved-or-seeded", mapOnly, "-", FALSE, pk.mappings, log)
        /\ Check("C07", "jsr-redirect-through-exports", \A s \in redirected : redirOk(s), "-", FALSE, g.redirects, "-")
        /\ Check("C07", "unknown-export-lists-exports", \A s \in unknown : unkOk(s), "-", FALSE, unknown, "-")
        /\ Check("C07", "package-exports-used", exportsOk, "-", FALSE, pk.exports, "-")
        /\ Check("C07", "package-deps-sound", depsSound, "-", FALSE, pk.deps, "-")
        /\ Check("C07", "package-deps-complete", depsComplete, "F18", f18, pk.deps, [nv \in pkgsInGraph |-> importedBy(nv)])
        /\ Check("C06", "used-yanked-packages", SeqToSet(pk.yanked) = yankedExp, "-", FALSE, pk.yanked, yankedExp)
  /\ l' = l + 1 /\ UNCHANGED <<f, sel, log, loads, restarted, sets>>

Next == l <= Len(Rec) /\ (Reset \/ LoadEv \/ ResolvedEv \/ LockSetEv \/ OtherEv \/ BuiltEv)
Spec == Init /\ [][Next]_vars

Accepted == IF TLCGet("stats").diameter - 1 = Len(Rec) THEN PrintT(<<"ACCEPTED", Len(Rec)>>)
            ELSE PrintT(<<"STOPPED_AT", TLCGet("stats").diameter, Len(Rec)>>)
=============================================================================
