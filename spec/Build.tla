-------------------------------- MODULE Build --------------------------------
(* Big-step operational model of `Builder` (src/graph.rs 4633-6771) for URL  *)
(* worlds: one recursive operator per critical section, the worklist drained *)
(* deterministically (FuturesOrdered order).  Used by the relational         *)
(* properties (C17, C18, C19), by the closure property C01 as the expected   *)
(* graph generator, and by Steps.tla, which wraps the same operators in      *)
(* small-step actions with free completion order.                            *)
(*                                                                           *)
(* A world w is a record                                                     *)
(*   mods  function specifier -> response                                    *)
(*           [k |-> "mod", items, st]   st = @ts-self-types target or "-"    *)
(*           [k |-> "missing"] | [k |-> "err"] | [k |-> "external"]          *)
(*           [k |-> "redirect", to]                                          *)
(*   ext   function specifier -> media class by extension / header           *)
(*           "ts" | "tsx" | "js" | "jsx" | "dts" | "json" | "noext"          *)
(*   sch   function specifier -> "file" | "https" | "http"                   *)
(* item = [t, sp, f, a, tt]                                                  *)
(*   t   target specifier, or "!bad" (unresolvable bare specifier)           *)
(*   sp  spelling id "0" | "1" (same target, different text => two deps)     *)
(*   f   "static" | "sidefx" | "export" | "dynamic" | "type" | "jsdoc"       *)
(*   a   attribute type "none" | "json"                                      *)
(*   tt  @ts-types target ("-" when absent)                                  *)
(* options o = [kind, isDynamic, skipDynamic, maxRedirects]                  *)
EXTENDS GraphOps

IsDecl(mt) == mt = "dts"
IsTypedMt(mt) == mt \in {"ts", "tsx", "dts"}
IsJsLike(mt) == mt \in {"js", "jsx"}
ChkOf(mt) == IF mt \in {"ts", "tsx", "dts", "json", "wasm"} THEN "yes" ELSE IF mt \in {"js", "jsx"} THEN "js" ELSE "no"

TextOf(it) == it.t \o "#" \o it.sp
ResolveText(it) == IF it.t = "!bad" THEN ErrR("importprefix") ELSE Ok(it.t)
SpecOf(r) == IF IsOk(r) THEN <<r.ok>> ELSE <<>>      \* maybe_specifier()

(***************************************************************************)
(* fill_module_dependencies 3906-4167 + the JSDoc pass of                  *)
(* parse_js_module_from_module_info 3756-3788 (JSDoc entries come first).  *)
(* acc: sequence of [text, code, type, dyn, attr, lf]                      *)
(***************************************************************************)
NewDep(text, lf) == [text |-> text, code |-> NONE, type |-> NONE, dyn |-> FALSE, attr |-> "none", lf |-> lf]
IdxOf(acc, text) == { j \in DOMAIN acc : acc[j].text = text }
Upsert(acc, text, lf, F(_)) ==
  LET idx == IdxOf(acc, text) IN
  IF idx = {} THEN Append(acc, F(NewDep(text, lf)))
  ELSE LET j == CHOOSE x \in idx : TRUE IN [acc EXCEPT ![j] = F(acc[j])]

\* af: targets whose specifier text is an absolute file: URL in this module (remote module importing a local file)
RECURSIVE JsDocPass(_, _, _, _, _, _)
JsDocPass(items, i, mt, kind, af, acc) ==
  IF i > Len(items) THEN acc
  ELSE LET it == items[i] IN
       IF it.f = "jsdoc" /\ IsJsLike(mt) /\ IncludeTypes(kind)
       THEN LET F(d) == IF IsNone(d.type) THEN [d EXCEPT !.type = ResolveText(it)] ELSE d
            IN JsDocPass(items, i + 1, mt, kind, af, Upsert(acc, TextOf(it), it.t \in af, F))
       ELSE JsDocPass(items, i + 1, mt, kind, af, acc)

EsStep(it, mt, kind, d0) ==
  LET d1 == IF d0.attr = "none" /\ it.a # "none" THEN [d0 EXCEPT !.attr = it.a] ELSE d0    \* 4070-4073
      d2 == IF it.tt # "-" /\ IncludeTypes(kind) /\ IsNone(d1.type) THEN [d1 EXCEPT !.type = Ok(it.tt)] ELSE d1  \* 4075-4091
  IN IF it.f = "type" THEN
        IF IsNone(d2.type) THEN [d2 EXCEPT !.type = ResolveText(it)] ELSE d2                \* 4092-4104
     ELSE
       LET d3 == IF IsDecl(mt) THEN d2
                 ELSE IF IsNone(d2.code) THEN [d2 EXCEPT !.code = ResolveText(it), !.dyn = (it.f = "dynamic")]
                 ELSE [d2 EXCEPT !.dyn = d2.dyn /\ (it.f = "dynamic")]                       \* 4105-4125
           mt0 == ResolveText(it)
           sideErr == it.f = "sidefx" /\ IsErrR(mt0)
       IN IF IncludeTypes(kind) /\ IsNone(d3.type) /\ ~sideErr /\ SpecOf(mt0) # SpecOf(d3.code)
          THEN [d3 EXCEPT !.type = mt0] ELSE d3                                             \* 4126-4149

RECURSIVE EsPass(_, _, _, _, _, _)
EsPass(items, i, mt, kind, af, acc) ==
  IF i > Len(items) THEN acc
  ELSE LET it == items[i] IN
       IF it.f = "jsdoc" \/ (it.f = "type" /\ ~IncludeTypes(kind))
       THEN EsPass(items, i + 1, mt, kind, af, acc)
       ELSE LET F(d) == EsStep(it, mt, kind, d) IN EsPass(items, i + 1, mt, kind, af, Upsert(acc, TextOf(it), it.t \in af, F))

FillDeps(items, mt, kind, af) == EsPass(items, 1, mt, kind, af, JsDocPass(items, 1, mt, kind, af, <<>>))
AbsFile(w, s) == IF w.sch[s] # "file" THEN { t \in DOMAIN w.sch : w.sch[t] = "file" } ELSE {}

(***************************************************************************)
(* admission: parse_module_source_and_info 3228-3427                       *)
(* returns "js" | "json" | an error kind                                   *)
(***************************************************************************)
Admit(mt0, attr, isRoot, isDyn) ==
  LET mt == IF isRoot /\ mt0 = "noext" THEN "js" ELSE mt0 IN
  IF attr \notin {"none", "json", "text", "bytes"} THEN "unsupportedattr"
  ELSE IF mt = "json" /\ (isRoot \/ isDyn \/ attr = "json") THEN "json"
  ELSE IF attr = "json" THEN "invalidassert"
  ELSE IF mt \in {"ts", "tsx", "js", "jsx", "dts"} THEN "js"
  ELSE "unsupported"

(***************************************************************************)
(* builder state st = [slots, redirects, pend, dynq, inDyn, roots]         *)
(* pend item = [s, root, dyn, ref, attr, count]; dynq item = [s, ref, attr]*)
(***************************************************************************)
\* npmSet: the npm: specifiers when an NpmResolver is supplied; npmq: PendingNpmResolutionItem list [s, ref, dyn]
EmptySt == [slots |-> EmptyFn, redirects |-> EmptyFn, pend |-> <<>>, dynq |-> <<>>, inDyn |-> FALSE, roots |-> <<>>,
            npmSet |-> {}, npmq |-> <<>>, n |-> 0, div |-> FALSE]
\* Fuel: the model stops a build after this many consumed responses and marks it as diverging (the code has no such
\* bound: see finding F17). No world of the instances that terminates needs more than a fraction of it.
Fuel == 120
HasNpm(w) == "npm" \in DOMAIN w
NpmOn(w) == IF HasNpm(w) /\ w.npm.on THEN { s \in DOMAIN w.mods : w.mods[s].k = "npm" } ELSE {}

\* load_with_redirect_count 5506-5696 (URL scheme only): one redirect level, existing-slot short-circuit
LoadC(st, s0, isRoot, isDyn, ref, attr, count) ==
  LET s == IF s0 \in DOMAIN st.redirects THEN st.redirects[s0] ELSE s0 IN
  IF s \in DOMAIN st.slots THEN st
  \* load_npm_specifier 5946-5975: no slot is created, the item waits for the resolution pass (so a second import of
  \* the same specifier is queued again)
  ELSE IF s \in st.npmSet THEN [st EXCEPT !.npmq = Append(st.npmq, [s |-> s, ref |-> ref, dyn |-> isDyn])]
  ELSE [st EXCEPT !.slots = Put(st.slots, s, [k |-> "pending"]),
                  !.pend = Append(st.pend, [s |-> s, root |-> isRoot, dyn |-> isDyn, ref |-> ref, attr |-> attr, count |-> count, landed |-> FALSE])]
Load(st, s, isRoot, isDyn, ref, attr) == LoadC(st, s, isRoot, isDyn, ref, attr, 0)

\* dynamic_branches.entry(spec).or_insert (code) / .insert (type): first referrer kept for code,
\* overwritten for type; the queue keeps insertion order of first insertion (IndexMap-like canonical order)
DynPut(st, s, ref, attr, overwrite) ==
  LET idx == { j \in DOMAIN st.dynq : st.dynq[j].s = s } IN
  IF idx = {} THEN [st EXCEPT !.dynq = Append(st.dynq, [s |-> s, ref |-> ref, attr |-> attr])]
  ELSE IF overwrite THEN LET j == CHOOSE x \in idx : TRUE IN [st EXCEPT !.dynq[j] = [s |-> s, ref |-> ref, attr |-> attr]]
  ELSE st

\* visit_module_dependencies 6668-6770; returns <<st', deps'>>
RECURSIVE VisitDeps(_, _, _, _, _, _)
VisitDeps(st, deps, i, o, m, out) ==
  IF i > Len(deps) THEN <<st, out>>
  ELSE LET d == deps[i] IN
    IF d.dyn /\ o.skipDynamic THEN VisitDeps(st, deps, i + 1, o, m, Append(out, d))
    ELSE
      LET followCode == IncludeCode(o.kind) \/ IsNone(d.type)
          st1 == IF followCode /\ IsOk(d.code)
                 THEN IF d.dyn /\ ~st.inDyn THEN DynPut(st, d.code.ok, m, d.attr, FALSE)
                      ELSE Load(st, d.code.ok, FALSE, st.inDyn, m, d.attr)
                 ELSE st
          d1 == IF followCode THEN d ELSE [d EXCEPT !.code = NONE]
          st2 == IF IncludeTypes(o.kind) /\ IsOk(d1.type)
                 THEN IF d.dyn /\ ~st1.inDyn THEN DynPut(st1, d1.type.ok, m, d.attr, TRUE)
                      ELSE Load(st1, d1.type.ok, FALSE, st1.inDyn, m, d.attr)
                 ELSE st1
          d2 == IF IncludeTypes(o.kind) THEN d1 ELSE [d1 EXCEPT !.type = NONE]
      IN VisitDeps(st2, deps, i + 1, o, m, Append(out, d2))

\* visit_module 6587-6666 for a JS module whose source is the response of `src` and whose (final) specifier is `at`
\* (`at` # `src` when the loader answered with another specifier: an implicit redirect)
VisitJsAs(w, st, src, at, o) ==
  LET mt0 == w.ext[at]
      mt == IF mt0 = "noext" THEN "js" ELSE mt0      \* only a root can be admitted without extension
      deps0 == FillDeps(w.mods[src].items, mt, o.kind, AbsFile(w, at))
      \* types dependency: @ts-self-types of an untyped module, else the X-TypeScript-Types response header (`ht`,
      \* honoured whatever the media type: 3790-3811)
      ht == IF "ht" \in DOMAIN w.mods[src] THEN w.mods[src].ht ELSE "-"
      tdep == IF IncludeTypes(o.kind) /\ ~IsTypedMt(mt) /\ w.mods[src].st # "-" THEN Ok(w.mods[src].st)
              ELSE IF IncludeTypes(o.kind) /\ ht # "-" THEN Ok(ht) ELSE NONE
      visit == IncludeCode(o.kind) \/ IsNone(tdep)
      r == IF visit THEN VisitDeps(st, deps0, 1, o, at, <<>>) ELSE <<st, <<>>>>
      st1 == r[1]
      st2 == IF IsOk(tdep) THEN Load(st1, tdep.ok, FALSE, FALSE, at, "none") ELSE st1
  IN [st2 EXCEPT !.slots = Put(st2.slots, at,
        [k |-> "mod", cls |-> "js", mt |-> mt, chk |-> ChkOf(mt), deps |-> r[2], tdep |-> tdep,
         tdepText |-> IF IsOk(tdep) THEN tdep.ok \o "#0" ELSE ""])]
VisitJs(w, st, s, o) == VisitJsAs(w, st, s, s, o)

ErrSlot(ek, ref) == [k |-> "err", ek |-> ek, ref |-> ref]

\* one iteration of resolve_pending 4785-4833 for the head of `pend`
Consume(w, st, o) ==
  LET it == Head(st.pend)
      s == it.s
      st0 == [st EXCEPT !.pend = Tail(st.pend)]
      resp == w.mods[s]
  IN IF resp.k = "missing" THEN [st0 EXCEPT !.slots = Put(st0.slots, s, ErrSlot("missing", it.ref))]
     ELSE IF resp.k = "err" THEN [st0 EXCEPT !.slots = Put(st0.slots, s, ErrSlot("load", it.ref))]
     ELSE IF resp.k \in {"external", "npm"} THEN      \* an npm: specifier without resolver is the loader's business
          [st0 EXCEPT !.slots = Put(st0.slots, s, [k |-> "mod", cls |-> "ext", mt |-> "ext", chk |-> "no", deps |-> <<>>, tdep |-> NONE, tdepText |-> ""])]
     ELSE IF resp.k = "redirect" THEN
          IF it.count >= o.maxRedirects THEN [st0 EXCEPT !.slots = Put(st0.slots, s, ErrSlot("toomanyredirects", it.ref))]
          ELSE LET \* check_specifier/add_redirect: the pending slot of the requested specifier goes away; a redirect
                   \* to the requested specifier itself is not recorded (after the fix of F14 the slot is removed
                   \* as well, so the re-load counts up to the limit and ends in TooManyRedirects)
                   st1 == [st0 EXCEPT !.slots = IF s \in DOMAIN st0.slots /\ st0.slots[s].k = "pending" THEN Del(st0.slots, s) ELSE st0.slots,
                                      !.redirects = IF s \in DOMAIN st0.redirects \/ resp.to = s THEN st0.redirects ELSE Put(st0.redirects, s, resp.to)]
               IN LoadC(st1, resp.to, it.root, it.dyn, it.ref, it.attr, it.count + 1)
     ELSE LET \* the loader may answer with another (final) specifier: check_specifier 5487-5516 records requested -> final
              \* (first one wins), drops the pending slot of the requested specifier, and the entry -- module or
              \* admission error -- is stored under the final specifier, overwriting what was there
              fin == IF "fin" \in DOMAIN resp /\ resp.fin # "-" THEN resp.fin ELSE s
              st1 == IF fin = s THEN st0
                     ELSE [st0 EXCEPT !.slots = IF s \in DOMAIN st0.slots /\ st0.slots[s].k = "pending" THEN Del(st0.slots, s) ELSE st0.slots,
                                      !.redirects = IF s \in DOMAIN st0.redirects THEN st0.redirects ELSE Put(st0.redirects, s, fin)]
              adm == Admit(w.ext[fin], it.attr, it.root, it.dyn) IN
          IF adm = "json" THEN
             [st1 EXCEPT !.slots = Put(st1.slots, fin, [k |-> "mod", cls |-> "json", mt |-> "json", chk |-> "yes", deps |-> <<>>, tdep |-> NONE, tdepText |-> ""])]
          ELSE IF adm = "js" THEN VisitJsAs(w, st1, s, fin, o)
          ELSE [st1 EXCEPT !.slots = Put(st1.slots, fin, ErrSlot(adm, it.ref))]

\* resolve_dynamic_branches 5137-5164 (canonical order = insertion order; see Steps.tla for the free order)
RECURSIVE LoadAllDyn(_, _)
LoadAllDyn(st, i) ==
  IF i > Len(st.dynq) THEN [st EXCEPT !.dynq = <<>>]
  ELSE LoadAllDyn(Load(st, st.dynq[i].s, FALSE, TRUE, st.dynq[i].ref, st.dynq[i].attr), i + 1)
EnterDyn(st) == LoadAllDyn([st EXCEPT !.inDyn = TRUE], 1)

RECURSIVE Drain(_, _, _)
Drain(w, st, o) ==
  IF st.n >= Fuel THEN [st EXCEPT !.div = TRUE]
  ELSE IF st.pend # <<>> THEN Drain(w, [Consume(w, st, o) EXCEPT !.n = st.n + 1], o)
  ELSE IF st.dynq # <<>> /\ ~st.inDyn THEN Drain(w, EnterDyn(st), o)
  ELSE st

(***************************************************************************)
(* NpmSpecifierResolver::resolve / fill_graph 6861-7008.                   *)
(* Static-branch items are resolved in one call grouped by requirement;    *)
(* dynamic-branch items one at a time, and those also fail when the        *)
(* dependency graph resolution fails. Results go to a map keyed by         *)
(* specifier (a later item of the same specifier overwrites), which is     *)
(* merged into the graph keeping existing entries.                         *)
(***************************************************************************)
NpmSlot == [k |-> "mod", cls |-> "npm", mt |-> "npm", chk |-> "no", deps |-> <<>>, tdep |-> NONE, tdepText |-> ""]
NpmResult(w, it) ==
  IF w.mods[it.s].req \in w.npm.failing THEN ErrSlot("npm", it.ref)
  ELSE IF it.dyn /\ w.npm.depFail THEN ErrSlot("npm", it.ref)
  ELSE NpmSlot
RECURSIVE NpmPut(_, _, _, _)
NpmPut(w, items, i, acc) == IF i > Len(items) THEN acc ELSE NpmPut(w, items, i + 1, Put(acc, items[i].s, NpmResult(w, items[i])))
NpmFill(w, st) ==
  IF st.npmq = <<>> THEN st
  ELSE LET main == SelectSeq(st.npmq, LAMBDA it : ~it.dyn)
           dynI == SelectSeq(st.npmq, LAMBDA it : it.dyn)
           \* items of one specifier share their requirement, so grouping by requirement keeps their relative order
           pendingInfo == NpmPut(w, dynI, 1, NpmPut(w, main, 1, EmptyFn))
       IN [st EXCEPT !.npmq = <<>>,
                     !.slots = [s \in (DOMAIN st.slots) \cup (DOMAIN pendingInfo) |->
                                  IF s \in DOMAIN st.slots THEN st.slots[s] ELSE pendingInfo[s]]]
\* declarative reading (C03): every requested npm specifier is settled; it is an error entry carrying a referrer
\* exactly when its requirement fails, or the dependency graph fails and it was requested from a dynamic branch
NpmSettled(w, g, requested) ==
  \A s \in requested :
     /\ s \in DOMAIN g.slots
     /\ g.slots[s].k \in {"mod", "err"}
     /\ (w.mods[s].req \in w.npm.failing) => (g.slots[s].k = "err" /\ g.slots[s].ref # "-")
     /\ (w.mods[s].req \notin w.npm.failing /\ ~w.npm.depFail) => g.slots[s] = NpmSlot

RECURSIVE LoadRoots(_, _, _, _)
LoadRoots(st, roots, i, o) ==
  IF i > Len(roots) THEN st ELSE LoadRoots(Load(st, roots[i], TRUE, o.isDynamic, "-", "none"), roots, i + 1, o)

\* Builder::build 4706-4746 on an existing graph g (Empty for a fresh build)
Graph0(kind, sch) == [kind |-> kind, roots |-> <<>>, slots |-> EmptyFn, redirects |-> EmptyFn, imports |-> <<>>, sch |-> sch]
RECURSIVE NewRoots(_, _, _)
NewRoots(have, roots, i) ==
  IF i > Len(roots) THEN <<>>
  ELSE IF roots[i] \in have THEN NewRoots(have, roots, i + 1)
  ELSE <<roots[i]>> \o NewRoots(have \cup {roots[i]}, roots, i + 1)
\* handle_provided_imports 4894-4922: configured type imports (w.imports = sequence of [ref, specs]) whose referrer
\* the graph does not know yet become GraphImport records (type resolution only) and their targets are loaded --
\* whatever the graph kind -- after the roots, with the configuration file as referrer
ConfiguredImports(w) == IF "imports" \in DOMAIN w THEN w.imports ELSE <<>>
\* the records are keyed by specifier text: a repeated entry of one configuration file collapses into the first
RECURSIVE DedupSeq(_, _, _)
DedupSeq(sq, i, acc) == IF i > Len(sq) THEN acc
                        ELSE DedupSeq(sq, i + 1, IF \E j \in DOMAIN acc : acc[j] = sq[i] THEN acc ELSE Append(acc, sq[i]))
ImportDeps(specs0) == LET specs == DedupSeq(specs0, 1, <<>>) IN
  [i \in DOMAIN specs |-> [text |-> specs[i] \o "#0", code |-> NONE, type |-> Ok(specs[i]), dyn |-> FALSE, attr |-> "none", lf |-> FALSE]]
RECURSIVE LoadSpecs(_, _, _, _, _)
LoadSpecs(st, ref, specs, i, o) ==
  IF i > Len(specs) THEN st ELSE LoadSpecs(Load(st, specs[i], FALSE, o.isDynamic, ref, "none"), ref, specs, i + 1, o)
RECURSIVE LoadImports(_, _, _, _)
LoadImports(st, imps, i, o) ==
  IF i > Len(imps) THEN st ELSE LoadImports(LoadSpecs(st, imps[i].ref, imps[i].specs, 1, o), imps, i + 1, o)
BuildOn(w, g, roots, o) ==
  LET nr == NewRoots(SeqToSet(g.roots), roots, 1)
      known == { g.imports[i].ref : i \in DOMAIN g.imports }
      ni == SelectSeq(ConfiguredImports(w), LAMBDA im : im.ref \notin known)
      st0 == [EmptySt EXCEPT !.slots = g.slots, !.redirects = g.redirects, !.inDyn = o.isDynamic, !.npmSet = NpmOn(w)]
      st == NpmFill(w, Drain(w, LoadImports(LoadRoots(st0, nr, 1, o), ni, 1, o), o))
  IN IF st.div THEN [kind |-> g.kind, roots |-> g.roots \o nr, diverged |-> TRUE, sch |-> g.sch]
     ELSE [g EXCEPT !.roots = g.roots \o nr, !.slots = st.slots, !.redirects = st.redirects,
                    !.imports = g.imports \o [i \in DOMAIN ni |-> [ref |-> ni[i].ref, deps |-> ImportDeps(ni[i].specs)]]]
Build(w, roots, o) == BuildOn(w, Graph0(o.kind, w.sch), roots, o)

\* Builder::reload 4750-4777
RECURSIVE ReloadLoads(_, _, _, _, _)
ReloadLoads(g, st, specs, i, o) ==
  IF i > Len(specs) THEN st
  ELSE LET s == Resolve(g, specs[i])
           st1 == [st EXCEPT !.slots = Del(st.slots, s)]
       IN ReloadLoads(g, Load(st1, s, TRUE, o.isDynamic, "-", "none"), specs, i + 1, o)
Reload(w, g, specs, o) ==
  LET st0 == [EmptySt EXCEPT !.slots = g.slots, !.redirects = g.redirects, !.inDyn = o.isDynamic, !.npmSet = NpmOn(w)]
      st == NpmFill(w, Drain(w, ReloadLoads(g, st0, specs, 1, o), o))
  IN [g EXCEPT !.slots = st.slots, !.redirects = st.redirects]

NoPending(g) == \A s \in DOMAIN g.slots : g.slots[s].k # "pending"

(***************************************************************************)
(* Declarative closure (C01): which specifiers a build must contain.       *)
(* Independent of the worklist: least fixpoint of "follow what kind and    *)
(* options say to follow" over the world's own declarations.               *)
(***************************************************************************)
FollowedTargets(w, s, o) ==      \* targets of the followed dependencies of module s (as admitted JS)
  LET mt0 == w.ext[s]
      mt == IF mt0 = "noext" THEN "js" ELSE mt0
      deps == FillDeps(w.mods[s].items, mt, o.kind, AbsFile(w, s))
      ht == IF "ht" \in DOMAIN w.mods[s] THEN w.mods[s].ht ELSE "-"
      tdep == IF IncludeTypes(o.kind) /\ ~IsTypedMt(mt) /\ w.mods[s].st # "-" THEN {w.mods[s].st}
              ELSE IF IncludeTypes(o.kind) /\ ht # "-" THEN {ht} ELSE {}
      visit == IncludeCode(o.kind) \/ tdep = {}
      fromDeps == IF ~visit THEN {} ELSE
        UNION { (IF (IncludeCode(o.kind) \/ IsNone(deps[i].type)) /\ IsOk(deps[i].code) THEN {deps[i].code.ok} ELSE {})
                \cup (IF IncludeTypes(o.kind) /\ IsOk(deps[i].type) THEN {deps[i].type.ok} ELSE {})
                : i \in { j \in DOMAIN deps : ~(deps[j].dyn /\ o.skipDynamic) } }
  IN tdep \cup fromDeps
\* specifier-level successor: redirects lead on; JS-like modules lead to their followed targets
Succ(w, s, o) ==
  IF w.mods[s].k = "redirect" THEN {w.mods[s].to}
  ELSE IF w.mods[s].k = "mod" /\ w.ext[s] \in {"ts", "tsx", "js", "jsx", "dts", "noext"} THEN FollowedTargets(w, s, o)
  ELSE {}
=============================================================================
