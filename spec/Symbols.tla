------------------------------- MODULE Symbols -------------------------------
(* C16: export resolution across `export * from` edges (possibly cyclic) and  *)
(* the shape of a module's symbol table.                                      *)
(*   exports_and_re_exports_inner: src/symbols/cross_module.rs 813-877        *)
EXTENDS Integers, Sequences, FiniteSets

(***************************************************************************)
(* A program: own[m] = names m exports itself (may contain "default"),     *)
(* stars[m] = sequence of modules re-exported with `export * from`.        *)
(***************************************************************************)
StarSet(stars, m) == { stars[m][i] : i \in DOMAIN stars[m] }

\* ES rule as the property states it: own names win; star re-exports contribute their non-default names
RECURSIVE ExportsFix(_, _, _)
ExportsFix(own, stars, E) ==
  LET E2 == [m \in DOMAIN own |-> own[m] \cup UNION { E[t] \ {"default"} : t \in StarSet(stars, m) }] IN
  IF E2 = E THEN E ELSE ExportsFix(own, stars, E2)
ExportsOf(own, stars, m) == ExportsFix(own, stars, own)[m]

\* As coded: depth-first with one visited set shared by the whole traversal; returns <<names, visited'>>
RECURSIVE DFS(_, _, _, _)
RECURSIVE DFSStars(_, _, _, _, _, _)
DFS(own, stars, m, visited) ==
  IF m \in visited THEN <<{}, visited>>
  ELSE DFSStars(own, stars, m, 1, own[m], visited \cup {m})
DFSStars(own, stars, m, i, acc, visited) ==
  IF i > Len(stars[m]) THEN <<acc, visited>>
  ELSE LET r == DFS(own, stars, stars[m][i], visited)
           add == { n \in r[1] : n # "default" /\ n \notin acc }
       IN DFSStars(own, stars, m, i + 1, acc \cup add, r[2])
ExportsDFS(own, stars, m) == DFS(own, stars, m, {})[1]

\* own names take precedence: a name a module exports itself is provided by that module, whatever its stars export
OwnWins(ownNames, providers, m) == \A n \in ownNames : n \in DOMAIN providers => providers[n] = m

(***************************************************************************)
(* Well-formedness of a projected symbol table: a sequence of records      *)
(*   [id, parent (-1 for none), children, members, exports (name -> id),   *)
(*    name ("" when anonymous), decls: sequence of [name, inText], root,   *)
(*    def: all declarations are definitions (not imports / file targets)]  *)
(***************************************************************************)
Ids(tab) == { tab[i].id : i \in DOMAIN tab }
Sym(tab, id) == tab[CHOOSE i \in DOMAIN tab : tab[i].id = id]
SeqSet(sq) == { sq[i] : i \in DOMAIN sq }
Count(sq, x) == Cardinality({ i \in DOMAIN sq : sq[i] = x })
ValuesOf(f) == { f[k] : k \in DOMAIN f }
WellFormedTree(tab) ==
  LET roots == { i \in DOMAIN tab : tab[i].parent = -1 } IN
  /\ Cardinality(roots) = 1                                              \* a single root: the module symbol
  /\ \A i \in roots : tab[i].root
  /\ \A i, j \in DOMAIN tab : i # j => tab[i].id # tab[j].id              \* ids are unique
  /\ \A i \in DOMAIN tab :
        LET s == tab[i] IN
        /\ SeqSet(s.children) \subseteq Ids(tab) /\ SeqSet(s.members) \subseteq Ids(tab) /\ ValuesOf(s.exports) \subseteq Ids(tab)
        /\ (s.parent # -1 =>
              /\ s.parent \in Ids(tab)
              \* a symbol that stands for definitions is reachable from its parent exactly once, as a child or as a
              \* member but not both; a symbol that only stands for imports / re-export targets is listed by nobody
              /\ Count(Sym(tab, s.parent).children, s.id) + Count(Sym(tab, s.parent).members, s.id) = (IF s.def THEN 1 ELSE 0))
        \* whatever a symbol lists as child or member points back to it
        /\ \A c \in SeqSet(s.children) \cup SeqSet(s.members) : Sym(tab, c).parent = s.id
        \* every named declaration carries the symbol's name and lies inside the module text
        /\ \A d \in DOMAIN s.decls : s.decls[d].inText /\ (s.decls[d].name # "" /\ s.name # "" => s.decls[d].name = s.name)
=============================================================================
