SPECIFICATION Spec
CONSTANTS
  Specs = {"r", "a", "b", "d", "j", "g", "m"}
  WithItems = {"r", "a", "b"}
  Big = {"r"}
  MaxRoot = 2
  MaxOther = 1
  Forms = {"static", "dynamic", "type"}
  Targets = {"a", "b", "j", "g", "m"}
  Sp1 = {"j"}
  MayMiss = {"m"}
  MayRedirect = {}
  MayErr = {}
  RootChoices <- Roots_r
  SelfTypes <- ST_bd
  TsTypes = {}
  JsonAttr = FALSE
  Emit = TRUE
  OptIsDynamic = FALSE
  OptSkipDynamic = FALSE
  Edits = FALSE
INVARIANT NoPendingInv
INVARIANT EmitInv
CHECK_DEADLOCK FALSE
