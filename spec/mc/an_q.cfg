SPECIFICATION Spec
CONSTANTS
  MaxItems = 2
  Mts = {"ts", "tsx", "js", "jsx", "mjs", "dts"}
  HeaderSet = {"none", "refPath", "refTypes", "refTypesMode", "selfTypes", "jsxSource", "jsxSourceTypes", "shebangRefTypes", "refBoth"}
  ItemSet = {"imp", "impDefault", "impNs", "side", "impJson", "impType", "impInlineType", "expNamed", "expStar", "expStarAs", "expType", "expTypeStar", "impEq", "expImpEq", "typeImportExpr", "typeofImport", "declMod", "dyn", "dynTpl", "dynTplParts", "dynExpr", "dynJson", "dynUnknownAttr", "req", "notReq", "metaResolve", "tsTypesImp", "denoTypesImp", "tsTypesNotLast", "tsTypesExport", "jsdocType", "jsdocImportTag", "inert", "impDefer", "impSource", "dynDefer", "dynSource", "reqTpl"}
INVARIANT ExactlyOnce
INVARIANT EmitInv
CHECK_DEADLOCK FALSE
