SPECIFICATION Spec
CONSTANTS
  Others = {"a", "b", "c"}
  FinTargets = {"a", "b", "c", "j"}
  MaxR = 2
  MaxO = 2
  Emit = TRUE
INVARIANT SettledInv
INVARIANT EmitInv
CHECK_DEADLOCK FALSE
