SPECIFICATION Spec
CONSTANTS
  Others = {"a", "b", "c"}
  FinTargets = {"a", "b", "c", "j"}
  MaxR = 3
  MaxO = 1
  Emit = TRUE
INVARIANT SettledInv
INVARIANT EmitInv
CHECK_DEADLOCK FALSE
