------------------------------ MODULE MC_Steps ------------------------------
(* Small-step builder (C03 termination / deadlock freedom, C04 independence  *)
(* of the completion order): the operators of Build.tla wrapped in one       *)
(* action per critical section of resolve_pending (4779-4876):               *)
(*   Land(i)   a loader future completes -- the scheduler's choice, any      *)
(*             outstanding load, any time                                    *)
(*   Consume   FuturesOrdered yields its head, only once that head landed    *)
(*   EnterDyn  resolve_dynamic_branches when nothing is pending              *)
(*   Finish    the loop condition becomes false                              *)
(* Worlds are those of MC_Core (chosen in Init).  `sched` records the picks  *)
(* as indices into the list of outstanding loads in issue order, which is    *)
(* what the harness's gated loader replays.                                  *)
EXTENDS MC_Core

CONSTANTS KindS, EmitSched
VARIABLES st, phase, sched
svars == <<w, edit, step, st, phase, sched>>

O == Opt(KindS)
InitS == /\ Init
         /\ st = LoadRoots([EmptySt EXCEPT !.inDyn = O.isDynamic], w.roots, 1, O)
         /\ phase = "run" /\ sched = <<>>

Unlanded == { i \in DOMAIN st.pend : ~st.pend[i].landed }
RankOf(i) == Cardinality({ j \in Unlanded : j < i })      \* 0-based position among outstanding loads
Land(i) == /\ phase = "run" /\ i \in Unlanded
           /\ st' = [st EXCEPT !.pend[i].landed = TRUE]
           /\ sched' = Append(sched, RankOf(i))
           /\ UNCHANGED <<w, edit, step, phase>>
ConsumeAct == /\ phase = "run" /\ st.pend # <<>> /\ st.pend[1].landed
              /\ st' = Consume(w, st, O)
              /\ UNCHANGED <<w, edit, step, phase, sched>>
EnterDynAct == /\ phase = "run" /\ st.pend = <<>> /\ st.dynq # <<>> /\ ~st.inDyn
               /\ st' = EnterDyn(st)
               /\ UNCHANGED <<w, edit, step, phase, sched>>
Finish == /\ phase = "run" /\ st.pend = <<>> /\ (st.dynq = <<>> \/ st.inDyn)
          /\ phase' = "done"
          /\ UNCHANGED <<w, edit, step, st, sched>>
NextS == (\E i \in 1..8 : Land(i)) \/ ConsumeAct \/ EnterDynAct \/ Finish
SpecS == InitS /\ [][NextS]_svars /\ WF_svars(NextS)

\* the view hides the schedule history: interleavings that reach the same builder state are merged
ViewS == <<w, st, phase>>

GraphOf == [kind |-> KindS, roots |-> w.roots, slots |-> st.slots, redirects |-> st.redirects, imports |-> <<>>, sch |-> w.sch]
\* C04 (design level): whatever the completion order, the terminal graph -- entries, dependencies, redirects and
\* error referrers -- is the one the FuturesOrdered-order run produces
Deterministic == phase = "done" => GraphOf = B(KindS)
\* C03 (design level): no deadlock, nothing pending at the end, and the build terminates
NoDeadlock == phase = "run" => ENABLED NextS
NoPendingAtDone == phase = "done" => NoPending(GraphOf)
Terminates == <>(phase = "done")

CaseS == [w |-> w, kind |-> KindS, schedule |-> sched, graph |-> NoSch(GraphOf)]
EmitS == (phase = "done" /\ EmitSched) => PrintT(<<"REPLAY", ToJson(CaseS)>>)
=============================================================================
