---------------------------- MODULE MC_Transform ----------------------------
EXTENDS Transform, TLC, Json
VARIABLES shape, step
vars == <<shape, step>>
\* a generator with a body that "returns nothing" is still a generator; only well-formed combinations are rendered
WellFormed(s) == /\ (s.fam = "fn" /\ s.gen) => s.body \in {"none", "single"}
Init == shape \in Shapes /\ WellFormed(shape) /\ step = 0
Next == step = 0 /\ step' = 1 /\ UNCHANGED shape
Spec == Init /\ [][Next]_vars
Sane == step = 1 => Cardinality(Outcome(shape)) <= 2
EmitInv == step = 1 => PrintT(<<"REPLAY", ToJson([shape |-> shape, codes |-> Outcome(shape)])>>)
=============================================================================
