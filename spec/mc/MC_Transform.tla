---------------------------- MODULE MC_Transform ----------------------------
EXTENDS Transform, TLC, Json
VARIABLES shape, step
vars == <<shape, step>>
\* a generator with a body that "returns nothing" is still a generator; only well-formed combinations are rendered
WellFormed(s) == /\ (s.fam = "fn" /\ s.gen) => s.body \in {"none", "single"}
Init == shape \in Shapes /\ WellFormed(shape) /\ step = 0
Next == step = 0 /\ step' = 1 /\ UNCHANGED shape
Spec == Init /\ [][Next]_vars
Sane == step = 1 => Cardinality(Outcome(shape)) <= 2
\* the scan as coded computes the declarative notion of "may be omitted by a caller", for every parameter list
OptionalAgree == (step = 1 /\ shape.fam = "params") => \A i \in 1..Len(shape.ps) : OptionalAtCoded(shape.ps, i) <=> OptionalAtDecl(shape.ps, i)
EmitInv == step = 1 => PrintT(<<"REPLAY", ToJson(IF shape.fam = "params" THEN [shape |-> shape, codes |-> Outcome(shape), sig |-> EmitSig(shape.ps)]
                                                        ELSE [shape |-> shape, codes |-> Outcome(shape)])>>)
=============================================================================
