------------------------------ MODULE MC_Chain ------------------------------
(* Redirect families (C14, C03): chains of 0..MaxLen loader redirects ending *)
(* in a module / missing / loader error / a back edge (cycle) / itself, with *)
(* the chain reached from an importing root or being the root; the loader's  *)
(* redirect limit is a parameter.  Same REPLAY format as MC_Core.            *)
EXTENDS Build, TLC, Json

CONSTANTS MaxLen, Limits

Names == <<"c00", "c01", "c02", "c03", "c04", "c05", "c06", "c07", "c08", "c09", "c10", "c11", "c12", "c13", "c14">>
C(i) == Names[i + 1]
VARIABLES w, lim, step
vars == <<w, lim, step>>

Terminals(n) == {"mod", "missing", "err", "self"} \cup { "back" \o C(k) : k \in 0..n }
ChainSpecs(n) == { C(i) : i \in 0..n }
World(n, term, viaRoot, form) ==
  LET specs == ChainSpecs(n) \cup {"r", "d"}
      termResp == IF term = "mod" THEN [k |-> "mod", items |-> <<>>, st |-> "-"]
                  ELSE IF term = "missing" THEN [k |-> "missing"]
                  ELSE IF term = "err" THEN [k |-> "err"]
                  ELSE IF term = "self" THEN [k |-> "redirect", to |-> C(n)]
                  ELSE [k |-> "redirect", to |-> CHOOSE x \in ChainSpecs(n) : term = "back" \o x]
      mods == [s \in specs |->
                IF s = "r" THEN [k |-> "mod", items |-> <<[t |-> C(0), sp |-> "0", f |-> form, a |-> "none", tt |-> "-"]>>, st |-> "-"]
                ELSE IF s = "d" THEN [k |-> "mod", items |-> <<>>, st |-> "-"]
                ELSE IF s = C(n) THEN termResp
                ELSE [k |-> "redirect", to |-> C((CHOOSE i \in 0..n : C(i) = s) + 1)]]
  IN [mods |-> mods, ext |-> [s \in specs |-> IF s = "d" THEN "dts" ELSE "ts"], sch |-> [s \in specs |-> "file"],
      roots |-> IF viaRoot THEN <<"r">> ELSE <<C(0)>>]

Init == /\ step = 0
        /\ \E n \in 0..MaxLen, viaRoot \in BOOLEAN, form \in {"static", "dynamic", "type"} : \E term \in Terminals(n) :
             w = World(n, term, viaRoot, form)
        /\ lim \in Limits
Next == step = 0 /\ step' = 1 /\ UNCHANGED <<w, lim>>
Spec == Init /\ [][Next]_vars

Kinds == {"all", "code", "types"}
Opt(k) == [kind |-> k, isDynamic |-> FALSE, skipDynamic |-> FALSE, maxRedirects |-> lim]
B(k) == Build(w, w.roots, Opt(k))
NoSch(g) == [f \in (DOMAIN g) \ {"sch"} |-> g[f]]
\* F14: a redirect to the requested specifier itself leaves the entry pending
SelfRedirect == \E s \in DOMAIN w.mods : w.mods[s].k = "redirect" /\ w.mods[s].to = s
NoPendingInv == step = 1 => \A k \in Kinds : NoPending(B(k))
\* design-level C14 on the built graph: lookups agree with the walk except on long chains / cycles
AgreeInv == step = 1 => \A k \in Kinds : LET g == B(k) IN
   \A s \in DOMAIN w.mods :
      (~HitsCycle(g, s) /\ ChainLen(g, s, {s}) < MaxRedirectNodes - 1) => TryGet(g, s) = Reached(g, s) /\ Resolve(g, Resolve(g, s)) = Resolve(g, s)
Case == [w |-> w, maxRedirects |-> lim, graphs |-> [k \in Kinds |-> NoSch(B(k))]]
EmitInv == step = 1 => PrintT(<<"REPLAY", ToJson(Case)>>)
=============================================================================
