SPECIFICATION Spec
CONSTANTS
  MaxItems = 3
  Mts = {"ts", "tsx", "js", "jsx", "mjs", "dts"}
  HeaderSet = {"none", "refPath", "refTypes", "refTypesMode", "selfTypes", "jsxSource", "jsxSourceTypes", "shebangRefTypes", "refBoth"}
  ItemSet = {"imp", "side", "impJson", "impType", "expStar", "expType", "impEq", "typeImportExpr", "declMod", "dyn", "dynTplParts", "dynJson", "req", "tsTypesImp", "tsTypesNotLast", "jsdocType", "inert", "dynDefer", "reqTpl"}
INVARIANT ExactlyOnce
INVARIANT EmitInv
CHECK_DEADLOCK FALSE
