------------------------------- MODULE MC_Fin -------------------------------
(* Implicit redirects: the loader answers a request for s with a module     *)
(* whose (final) specifier is another one.  Every world over r, a, b, c, j  *)
(* where each non-root specifier answers with a module (optionally under    *)
(* another final specifier), an explicit redirect, or nothing.              *)
(* C01/C03: the builder records requested -> final, stores the entry under  *)
(* the final specifier and still settles everything -- or the as-coded      *)
(* model runs out of fuel, which is finding F17 (the code never ends).      *)
EXTENDS Build, TLC, Json

CONSTANTS Others,       \* non-root specifiers that take every response
          FinTargets,   \* specifiers usable as final specifier / redirect target
          MaxR, MaxO, Emit

ExtT == [r |-> "ts", a |-> "ts", b |-> "ts", c |-> "js", j |-> "json"]
SchT == [r |-> "file", a |-> "file", b |-> "file", c |-> "file", j |-> "file"]
Specs == {"r"} \cup Others \cup FinTargets

VARIABLES w, step
vars == <<w, step>>

It(t) == [t |-> t, sp |-> "0", f |-> "static", a |-> "none", tt |-> "-"]
SeqsUpTo(S, n) == UNION { [1..k -> S] : k \in 0..n }
RespSet(s) ==
  IF s \in Others THEN
      { [k |-> "mod", items |-> its, st |-> "-", fin |-> fin] :
           its \in SeqsUpTo({ It(t) : t \in Specs }, MaxO), fin \in {"-"} \cup (FinTargets \ {s}) }
      \cup { [k |-> "redirect", to |-> t] : t \in FinTargets \ {s} }
      \cup {[k |-> "missing"]}
  ELSE { [k |-> "mod", items |-> <<>>, st |-> "-", fin |-> "-"], [k |-> "missing"] }
RefsOf(ww, s) ==
  IF ww.mods[s].k = "redirect" THEN {ww.mods[s].to}
  ELSE IF ww.mods[s].k = "mod" THEN { ww.mods[s].items[i].t : i \in DOMAIN ww.mods[s].items } \cup ({ww.mods[s].fin} \cap Specs)
  ELSE {}
RECURSIVE SyntReach(_, _)
SyntReach(ww, S) == LET T == S \cup UNION { RefsOf(ww, s) : s \in S } IN IF T = S THEN S ELSE SyntReach(ww, T)
Default(s) == IF s \in Others THEN [k |-> "missing"] ELSE [k |-> "mod", items |-> <<>>, st |-> "-", fin |-> "-"]
Canonical(ww) == \A s \in Specs \ SyntReach(ww, {"r"}) : ww.mods[s] = Default(s)
\* the loader is consistent: a specifier it names as final answers, when requested itself, with that same module
\* under its own name (the properties about segments, incremental builds and reloads presuppose one world)
Consistent(ww) == \A s \in Specs : (ww.mods[s].k = "mod" /\ ww.mods[s].fin # "-") =>
                     /\ ww.mods[ww.mods[s].fin].k = "mod"
                     /\ ww.mods[ww.mods[s].fin].items = ww.mods[s].items
                     /\ ww.mods[ww.mods[s].fin].fin = "-"
RS(s) == IF s \in Specs THEN RespSet(s) ELSE {[k |-> "absent"]}
Init ==
  /\ step = 0
  /\ \E ir \in SeqsUpTo({ It(t) : t \in Specs \ {"r"} }, MaxR), fa \in RS("a"), fb \in RS("b"), fc \in RS("c"), fj \in RS("j") :
       LET all == [r |-> [k |-> "mod", items |-> ir, st |-> "-", fin |-> "-"], a |-> fa, b |-> fb, c |-> fc, j |-> fj]
       IN /\ w = [mods |-> [s \in Specs |-> all[s]], ext |-> [s \in Specs |-> ExtT[s]], sch |-> [s \in Specs |-> SchT[s]], roots |-> <<"r">>]
          /\ Canonical(w)
          /\ Consistent(w)
Next == step = 0 /\ step' = 1 /\ UNCHANGED w
Spec == Init /\ [][Next]_vars

Kinds == {"all", "code", "types"}
Opt(k) == [kind |-> k, isDynamic |-> FALSE, skipDynamic |-> FALSE, maxRedirects |-> 10]
B(k) == Build(w, w.roots, Opt(k))
Diverged(g) == "diverged" \in DOMAIN g

\* design level: a build that ends leaves nothing pending; every entry sits under a specifier that is not itself an
\* implicit-redirect source unless something else was stored there later
SettledInv == step = 1 => \A k \in Kinds : LET g == B(k) IN Diverged(g) \/ NoPending(g)
\* F17 (known): some worlds make the builder as coded run forever; this invariant states how many (it is expected to
\* be violated and is not part of the checked configuration: see fin_div.cfg)
NeverDiverges == step = 1 => \A k \in Kinds : ~Diverged(B(k))

NoSch(g) == [f \in (DOMAIN g) \ {"sch"} |-> g[f]]
Case == [w |-> w, graphs |-> [k \in Kinds |-> NoSch(B(k))]]
EmitInv == (step = 1 /\ Emit) => PrintT(<<"REPLAY", ToJson(Case)>>)
=============================================================================
