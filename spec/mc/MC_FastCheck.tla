---------------------------- MODULE MC_FastCheck ----------------------------
(* All small programs: the tracer under every pop order reaches exactly the  *)
(* declarative public set (closure and minimality), C09/C11 design level;    *)
(* every program is printed with the predicted public declarations so that   *)
(* the harness can render it, run the real fast check and compare what was   *)
(* retained (spec -> impl).                                                   *)
EXTENDS FastCheck, TLC, Json

CONSTANTS MaxRefs, Emit, ModRefs, NsAlias, AliasMods,
          StarMode     \* "any": a module may forward any other module; "chain": only e -> a -> b -> c

Others(m) == Mods \ {m}
ExportChoices == {"-"} \cup Names \cup {"default"}
\* distinct export names per module
ExportedOk(e) == \A m \in Mods : \A d1, d2 \in Decls : (d1 # d2 /\ e[m][d1] # "-") => e[m][d1] # e[m][d2]
RefChoices(d) == { S \in SUBSET ((Decls \ {d}) \cup AliasIds) : Cardinality(S) <= MaxRefs }

\* per-module choices, filtered locally so that TLC never enumerates the product of ill-formed modules
AliasChoices(m) == IF m \notin AliasMods THEN {<<>>} ELSE {<<>>} \cup { <<t, n>> : t \in Mods \ {m}, n \in Names \cup {"default"} \cup (IF NsAlias THEN {"*"} ELSE {}) }
ChainNext == [e |-> {"a"}, a |-> {"b"}, b |-> {"c"}, c |-> {}]
StarChoices(m) == {<<>>} \cup { <<t>> : t \in (IF StarMode = "chain" THEN ChainNext[m] \cap Mods ELSE Mods \ {m}) }
ModRefChoices(m) == IF ModRefs THEN { S \in SUBSET (Mods \ {m}) : Cardinality(S) <= 1 } ELSE {{}}
LocalOk(m, c) ==
  /\ \A d1, d2 \in Decls : (d1 # d2 /\ c.exported[d1] # "-") => c.exported[d1] # c.exported[d2]       \* distinct export names
  /\ \A d \in Decls : d \notin c.refs[d] /\ Cardinality(c.refs[d]) + Cardinality(c.modrefs[d]) <= MaxRefs
  /\ \A a \in AliasIds : (c.alias[a] # <<>>) <=> (\E d \in Decls : a \in c.refs[d])                   \* aliases are written iff used
ModChoices(m) ==
  { c \in [ exported : [Decls -> ExportChoices], refs : [Decls -> SUBSET (Decls \cup AliasIds)], modrefs : [Decls -> ModRefChoices(m)],
            alias : [AliasIds -> AliasChoices(m)], stars : StarChoices(m) ] : LocalOk(m, c) }
Dummy == [ exported |-> [d \in Decls |-> "-"], refs |-> [d \in Decls |-> {}], modrefs |-> [d \in Decls |-> {}], alias |-> [a \in AliasIds |-> <<>>], stars |-> <<>> ]
MC(m) == IF m \in Mods THEN ModChoices(m) ELSE {Dummy}
\* an import alias names something its target really exports (otherwise the program does not type check)
GlobalOk(p) == \A m \in Mods : \A a \in AliasIds : p.alias[m][a] # <<>> =>
                  (p.alias[m][a][2] = "*" \/ p.alias[m][a][2] \in ({ p.exported[p.alias[m][a][1]][d] : d \in Decls } \ {"-"})
                   \* ... or forwards through `export *` (evaluated on `prog`, which Init has bound to p by then)
                   \/ (StarMode = "chain" /\ p.alias[m][a][2] # "default" /\ p.alias[m][a][2] \in ExportsOf(p.alias[m][a][1])))
Init ==
  /\ \E ce \in MC("e"), ca \in MC("a"), cb \in MC("b"), cc \in MC("c") :
       LET all == [e |-> ce, a |-> ca, b |-> cb, c |-> cc] IN
       /\ prog = [ exported |-> [m \in Mods |-> all[m].exported], refs |-> [m \in Mods |-> all[m].refs], modrefs |-> [m \in Mods |-> all[m].modrefs],
                   alias |-> [m \in Mods |-> all[m].alias], stars |-> [m \in Mods |-> all[m].stars] ]
       /\ GlobalOk(prog)
  /\ pt = [x \in {Entry} |-> StarD] /\ tr = [x \in {Entry} |-> StarD] /\ pub = {}
Next == \E m \in Mods : Pop(m)
Spec == Init /\ [][Next]_vars

\* C09 (closure) and C11 (minimality) at design level, for every pop order
Agree == Quiescent => pub = PublicSet
Closed == Quiescent => \A p \in pub : \A d \in refs[p[1]][p[2]] \cap Decls : <<p[1], d>> \in pub
TracedAgree == Quiescent => DOMAIN tr = TracedSet

LocalName(m, d) == IF exported[m][d] = "-" THEN "P_" \o m \o "_" \o d
                   ELSE IF exported[m][d] = "default" THEN "Def_" \o m ELSE exported[m][d]
File(m) == "p1/" \o m \o ".ts"
Case == [ prog |-> [ mods |-> Mods, entry |-> Entry, decls |-> Decls, exported |-> exported, refs |-> refs, alias |-> alias, stars |-> stars, modrefs |-> modrefs ],
          expect |-> [ public |-> [f \in { File(m) : m \in Mods } |-> LET m == CHOOSE x \in Mods : File(x) = f IN
                                      { LocalName(m, d) : d \in { x \in Decls : <<m, x>> \in PublicSet } }],
                       decls |-> [f \in { File(m) : m \in Mods } |-> LET m == CHOOSE x \in Mods : File(x) = f IN { LocalName(m, d) : d \in Decls }],
                       traced |-> [f \in { File(m) : m \in Mods } |-> (CHOOSE x \in Mods : File(x) = f) \in TracedSet] ] ]
EmitInv == (Emit /\ pub = {} /\ DOMAIN pt = {Entry} /\ pt[Entry] = StarD) => PrintT(<<"REPLAY", ToJson(Case)>>)
=============================================================================
