---------------------------- MODULE MC_FastCheck ----------------------------
(* All small programs: the tracer under every pop order reaches exactly the  *)
(* declarative public set (closure and minimality), C09/C11 design level;    *)
(* every program is printed with the predicted public declarations so that   *)
(* the harness can render it, run the real fast check and compare what was   *)
(* retained (spec -> impl).                                                   *)
EXTENDS FastCheck, TLC, Json

CONSTANTS MaxRefs, Emit

Others(m) == Mods \ {m}
ExportChoices == {"-"} \cup Names \cup {"default"}
\* distinct export names per module
ExportedOk(e) == \A m \in Mods : \A d1, d2 \in Decls : (d1 # d2 /\ e[m][d1] # "-") => e[m][d1] # e[m][d2]
RefChoices(d) == { S \in SUBSET ((Decls \ {d}) \cup AliasIds) : Cardinality(S) <= MaxRefs }

ProgOk(p) ==
  /\ ExportedOk(p.exported)
  \* an import alias names something its target really exports (otherwise the program does not type check)
  /\ \A m \in Mods : \A a \in AliasIds : p.alias[m][a] # <<>> =>
        LET E == [x \in Mods |-> { p.exported[x][d] : d \in Decls } \ {"-"}] IN
        p.alias[m][a][2] \in E[p.alias[m][a][1]]
  \* aliases that no declaration mentions are not written
  /\ \A m \in Mods : \A a \in AliasIds : p.alias[m][a] # <<>> => \E d \in Decls : a \in p.refs[m][d]
  /\ \A m \in Mods : \A d \in Decls : \A a \in p.refs[m][d] \cap AliasIds : p.alias[m][a] # <<>>

Init ==
  /\ prog \in [ exported : [Mods -> [Decls -> ExportChoices]],
                refs : { r \in [Mods -> [Decls -> SUBSET (Decls \cup AliasIds)]] : \A m \in Mods : \A d \in Decls : r[m][d] \in RefChoices(d) },
                alias : [Mods -> [AliasIds -> {<<>>} \cup { <<t, n>> : t \in Mods, n \in Names \cup {"default"} }]],
                stars : [Mods -> {<<>>} \cup { <<t>> : t \in Mods }] ]
  /\ ProgOk(prog)
  /\ \A m \in Mods : \A a \in AliasIds : prog.alias[m][a] # <<>> => prog.alias[m][a][1] # m
  /\ \A m \in Mods : prog.stars[m] # <<>> => prog.stars[m][1] # m
  /\ pt = [x \in {Entry} |-> StarD] /\ tr = [x \in {Entry} |-> StarD] /\ pub = {}
Next == \E m \in Mods : Pop(m)
Spec == Init /\ [][Next]_vars

\* C09 (closure) and C11 (minimality) at design level, for every pop order
Agree == Quiescent => pub = PublicSet
Closed == Quiescent => \A p \in pub : \A d \in refs[p[1]][p[2]] \cap Decls : <<p[1], d>> \in pub
TracedAgree == Quiescent => DOMAIN tr = TracedSet

LocalName(m, d) == IF exported[m][d] = "-" THEN "P_" \o m \o "_" \o d
                   ELSE IF exported[m][d] = "default" THEN "Def_" \o m ELSE exported[m][d]
File(m) == "p1/" \o m \o ".ts"
Case == [ prog |-> [ mods |-> Mods, entry |-> Entry, decls |-> Decls, exported |-> exported, refs |-> refs, alias |-> alias, stars |-> stars ],
          expect |-> [ public |-> [f \in { File(m) : m \in Mods } |-> LET m == CHOOSE x \in Mods : File(x) = f IN
                                      { LocalName(m, d) : d \in { x \in Decls : <<m, x>> \in PublicSet } }],
                       decls |-> [f \in { File(m) : m \in Mods } |-> LET m == CHOOSE x \in Mods : File(x) = f IN { LocalName(m, d) : d \in Decls }],
                       traced |-> [f \in { File(m) : m \in Mods } |-> (CHOOSE x \in Mods : File(x) = f) \in TracedSet] ] ]
EmitInv == (Emit /\ pub = {} /\ DOMAIN pt = {Entry} /\ pt[Entry] = StarD) => PrintT(<<"REPLAY", ToJson(Case)>>)
=============================================================================
