SPECIFICATION Spec
CONSTANTS
  Mods = {"e", "a", "b"}
  Entry = "e"
  Decls = {"d1", "d2"}
  AliasIds = {"i1"}
  Names = {"n1"}
  MaxRefs = 1
  Emit = TRUE
  AliasMods = {"e"}
  NsAlias = FALSE
  StarMode = "chain"
  ModRefs = FALSE
INVARIANT Agree
INVARIANT Closed
INVARIANT TracedAgree
INVARIANT EmitInv
CHECK_DEADLOCK FALSE
