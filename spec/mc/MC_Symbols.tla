----------------------------- MODULE MC_Symbols -----------------------------
(* All star re-export graphs over Mods (self loops, cycles, diamonds) with    *)
(* all assignments of own export names: the visited-set DFS as coded equals   *)
(* the ES fixpoint, for every module as starting point; each program is       *)
(* printed with the predicted export key sets for the harness.                *)
EXTENDS Symbols, TLC, Json
CONSTANTS Mods, Names, MaxStars, MaxStarsEntry, Entry
VARIABLES own, stars, step
vars == <<own, stars, step>>
SeqsUpTo(S, n) == UNION { [1..k -> S] : k \in 0..n }
Init == /\ own \in [Mods -> SUBSET Names]
        /\ stars \in [Mods -> SeqsUpTo(Mods, MaxStarsEntry)]
        /\ \A m \in Mods \ {Entry} : Len(stars[m]) <= MaxStars
        /\ step = 0
Next == step = 0 /\ step' = 1 /\ UNCHANGED <<own, stars>>
Spec == Init /\ [][Next]_vars
Agree == step = 1 => \A m \in Mods : ExportsDFS(own, stars, m) = ExportsOf(own, stars, m)
OwnWin == step = 1 => \A m \in Mods : own[m] \subseteq ExportsOf(own, stars, m)
EmitInv == step = 1 => PrintT(<<"REPLAY", ToJson([own |-> own, stars |-> stars, expect |-> [m \in Mods |-> ExportsOf(own, stars, m)]])>>)
=============================================================================
