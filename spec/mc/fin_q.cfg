SPECIFICATION Spec
CONSTANTS
  Others = {"a", "b", "c"}
  FinTargets = {"a", "b", "c"}
  MaxR = 2
  MaxO = 1
  Emit = TRUE
INVARIANT SettledInv
INVARIANT EmitInv
CHECK_DEADLOCK FALSE
