---------------------------- MODULE MC_Analyzer ----------------------------
(* All documents of at most MaxItems items x header x footer x media type;   *)
(* model-internal sanity: every dependency-bearing item contributes exactly  *)
(* one expected entry; each document is printed with its expectation for the *)
(* harness (spec -> impl).                                                   *)
EXTENDS Analyzer, FiniteSets, TLC, Json
CONSTANTS MaxItems, Mts, HeaderSet, ItemSet
VARIABLES doc, mt, step
vars == <<doc, mt, step>>
SeqsUpTo(S, n) == UNION { [1..k -> S] : k \in 0..n }
Init == /\ mt \in Mts
        /\ doc \in [header : HeaderSet, items : SeqsUpTo(ItemSet, MaxItems), footer : Footers]
        /\ DocOk(doc, mt) /\ step = 0
Next == step = 0 /\ step' = 1 /\ UNCHANGED <<doc, mt>>
Spec == Init /\ [][Next]_vars
ExactlyOnce == step = 1 => LET e == Expected(doc, mt) IN
   /\ Len(e.deps) = Cardinality({ j \in DOMAIN doc.items : Vocab[doc.items[j]].cls \in {"static", "dynamic"} })
   /\ \A a, b \in DOMAIN e.deps : a < b => e.deps[a].spec < e.deps[b].spec
EmitInv == step = 1 => PrintT(<<"REPLAY", ToJson([doc |-> doc, mt |-> mt, expect |-> Expected(doc, mt)])>>)
=============================================================================
