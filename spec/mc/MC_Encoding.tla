---------------------------- MODULE MC_Encoding ----------------------------
(* The whole decision table of Encoding.tla, one state per row; each row is  *)
(* printed for the harness, which renders bytes of that class with seeded    *)
(* payloads and loads them through a one-module build and parse_module.      *)
EXTENDS Encoding, TLC, Json
VARIABLES row, step
vars == <<row, step>>
Rows == [scheme : Schemes, header : Headers, cls : Classes, media : {"ts", "json"}, pos : {"root", "dep"}]
Init == row \in Rows /\ step = 0 /\ (row.scheme = "jsr" => (row.header = "none" /\ row.pos = "dep"))
Next == step = 0 /\ step' = 1 /\ UNCHANGED row
Spec == Init /\ [][Next]_vars
\* sanity of the table itself
Sane == step = 1 => LET e == Expected(row.scheme, row.header, row.cls) IN
          /\ (e.outcome = "decodeError" <=> row.header = "bogus")
          /\ (e.original = "same" => e.charset \in {"utf-8", "windows-1252"})
          /\ (row.scheme = "https" /\ row.header = "none" => e.charset = "utf-8")
EmitInv == step = 1 => PrintT(<<"REPLAY", ToJson([row |-> row, expect |-> Expected(row.scheme, row.header, row.cls)])>>)
=============================================================================
