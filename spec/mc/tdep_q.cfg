SPECIFICATION Spec
CONSTANTS
  Specs = {"r", "b", "d", "a", "c", "m"}
  WithItems = {"r", "b"}
  Big = {"r"}
  MaxRoot = 2
  MaxOther = 1
  Forms = {"static", "type"}
  Targets = {"b", "d", "a"}
  Sp1 = {}
  MayMiss = {"m", "c"}
  MayRedirect = {"d", "a"}
  MayErr = {}
  RootChoices <- Roots_r
  SelfTypes <- ST_bd_bm
  TsTypes = {"d"}
  JsonAttr = FALSE
  Emit = TRUE
  OptIsDynamic = FALSE
  OptSkipDynamic = FALSE
  Edits = FALSE
INVARIANT NoPendingInv
INVARIANT EmitInv
CHECK_DEADLOCK FALSE
