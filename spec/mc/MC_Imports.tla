------------------------------ MODULE MC_Imports ------------------------------
(* Configured type imports (compilerOptions.types): every world over a root  *)
(* r, modules a (ts) and b (js, with optional self-types d), declaration      *)
(* files d and t, a missing m and a redirecting x, with zero to two           *)
(* configuration files each naming up to two type imports.                    *)
(* C01: the closure starts at the roots *and* the configured imports, for     *)
(* every graph kind; the GraphImport records carry type resolutions only.     *)
EXTENDS Build, TLC, Json

CONSTANTS MaxR, MaxSpecs, Emit

Specs == {"r", "a", "b", "d", "t", "m", "x"}
ExtT == [r |-> "ts", a |-> "ts", b |-> "js", d |-> "dts", t |-> "dts", m |-> "ts", x |-> "ts"]
SchT == [s \in Specs |-> "file"]
ImpTargets == {"d", "t", "m", "x", "a"}

VARIABLES w, step
vars == <<w, step>>

It(t, f) == [t |-> t, sp |-> "0", f |-> f, a |-> "none", tt |-> "-"]
SeqsUpTo(S, n) == UNION { [1..k -> S] : k \in 0..n }
RootItems == { It(t, f) : t \in {"a", "b", "d"}, f \in {"static", "dynamic", "type"} }
NonEmptySeqs(S, n) == UNION { [1..k -> S] : k \in 1..n }
ImportChoices == {<<>>}
                 \cup { <<[ref |-> "cfg1", specs |-> s1]>> : s1 \in NonEmptySeqs(ImpTargets, MaxSpecs) }
                 \cup { <<[ref |-> "cfg1", specs |-> s1], [ref |-> "cfg2", specs |-> s2]>> :
                          s1 \in NonEmptySeqs(ImpTargets, 1), s2 \in NonEmptySeqs(ImpTargets, 1) }
Init ==
  /\ step = 0
  /\ \E ir \in SeqsUpTo(RootItems, MaxR), bst \in {"-", "d"}, ax \in {<<>>, <<It("t", "static")>>, <<It("x", "static")>>},
        xto \in {"t", "m"}, aht \in {"-", "t"}, imps \in ImportChoices :
       w = [mods |-> [s \in Specs |->
                        IF s = "r" THEN [k |-> "mod", items |-> ir, st |-> "-"]
                        ELSE IF s = "a" THEN [k |-> "mod", items |-> ax, st |-> "-", ht |-> aht]   \* typed module + types header
                        ELSE IF s = "b" THEN [k |-> "mod", items |-> <<>>, st |-> bst]
                        ELSE IF s = "m" THEN [k |-> "missing"]
                        ELSE IF s = "x" THEN [k |-> "redirect", to |-> xto]
                        ELSE [k |-> "mod", items |-> <<>>, st |-> "-"]],
            ext |-> ExtT, sch |-> SchT, roots |-> <<"r">>, imports |-> imps]
Next == step = 0 /\ step' = 1 /\ UNCHANGED w
Spec == Init /\ [][Next]_vars

Kinds == {"all", "code", "types"}
Opt(k) == [kind |-> k, isDynamic |-> FALSE, skipDynamic |-> FALSE, maxRedirects |-> 10]
B(k) == Build(w, w.roots, Opt(k))

\* C01 (closure): entries and redirect sources = least fixpoint from the roots and the configured import targets
ImportTargetSet == UNION { { w.imports[i].specs[j] : j \in DOMAIN w.imports[i].specs } : i \in DOMAIN w.imports }
RECURSIVE ReachFix(_, _)
ReachFix(S, o) == LET T == S \cup UNION { Succ(w, s, o) : s \in S } IN IF T = S THEN S ELSE ReachFix(T, o)
ClosureInv == step = 1 => \A k \in Kinds :
   LET g == B(k) IN (DOMAIN g.slots) \cup (DOMAIN g.redirects) = ReachFix({"r"} \cup ImportTargetSet, Opt(k))
\* the import records: one per configuration file, in order, type resolutions only
RecordsInv == step = 1 => \A k \in Kinds :
   LET g == B(k) IN
   /\ Len(g.imports) = Len(w.imports)
   /\ \A i \in DOMAIN g.imports : /\ g.imports[i].ref = w.imports[i].ref
                                  /\ { g.imports[i].deps[j].type : j \in DOMAIN g.imports[i].deps } = { Ok(w.imports[i].specs[j]) : j \in DOMAIN w.imports[i].specs }
                                  /\ \A j \in DOMAIN g.imports[i].deps : IsNone(g.imports[i].deps[j].code)
\* C19: a second build with the same configuration adds nothing (known referrers are skipped)
RebuildInv == step = 1 => \A k \in Kinds : BuildOn(w, B(k), w.roots, Opt(k)) = B(k)
\* C17: pruning removes the records and everything only they reach: equal to the code-only build without configuration
NoImp == [x \in (DOMAIN w) \ {"imports"} |-> w[x]]
PruneInv == step = 1 => LET pa == Prune(B("all"))  co == Build(NoImp, w.roots, Opt("code")) IN
   ObsCode(pa) = ObsCode(co) /\ NoTypesLeft(pa)

NoSch(g) == [f \in (DOMAIN g) \ {"sch"} |-> g[f]]
Case == [w |-> w, graphs |-> [k \in Kinds |-> NoSch(B(k))]]
EmitInv == (step = 1 /\ Emit) => PrintT(<<"REPLAY", ToJson(Case)>>)
=============================================================================
