SPECIFICATION Spec
INVARIANT Sane
INVARIANT OptionalAgree
INVARIANT EmitInv
CHECK_DEADLOCK FALSE
