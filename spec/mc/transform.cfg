SPECIFICATION Spec
INVARIANT Sane
INVARIANT EmitInv
CHECK_DEADLOCK FALSE
