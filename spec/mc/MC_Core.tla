------------------------------- MODULE MC_Core -------------------------------
(* Model-checking instance: enumerates module worlds over a fixed vocabulary *)
(* of specifiers, runs the big-step builder on each (three graph kinds),     *)
(* checks the design-level properties, and prints one REPLAY line per world  *)
(* (world + predicted graphs) for the Rust harness to replay against the     *)
(* real crate (spec -> impl).                                                *)
EXTENDS Build, TLC, Json

CONSTANTS
  Specs,        \* set of specifier ids present in the world
  WithItems,    \* modules that may carry import items
  Big,          \* modules that may carry up to MaxRoot items
  MaxRoot,      \* max items of the modules in Big
  MaxOther,     \* max items of the others
  Forms,        \* import forms
  Targets,      \* allowed import targets (subset of Specs, may contain "!bad")
  Sp1,          \* targets that may also be spelled a second way
  MayMiss,      \* specifiers that may be missing
  MayRedirect,  \* specifiers that may answer with a redirect
  MayErr,       \* specifiers that may answer with a loader error / external
  RootChoices,  \* set of root sequences
  SelfTypes,    \* set of <<module, target>> pairs allowed as @ts-self-types
  TsTypes,      \* set of targets usable in a @ts-types pragma
  JsonAttr,     \* TRUE: imports of .json targets may carry `with {type: "json"}`
  Emit,         \* TRUE: print REPLAY lines
  Edits,        \* TRUE: also choose one source edit (C19 reload histories)
  OptIsDynamic, \* BuildOptions::is_dynamic (the roots are dynamic imports of a running program)
  OptSkipDynamic \* BuildOptions::skip_dynamic_deps

\* global vocabulary: media class by extension and scheme of every id the profiles use
ExtT == [r |-> "ts", a |-> "ts", b |-> "js", c |-> "ts", d |-> "dts", j |-> "json", g |-> "noext",
         m |-> "ts", x |-> "tsx", h |-> "ts", p |-> "ts", q |-> "js"]
SchT == [r |-> "file", a |-> "file", b |-> "file", c |-> "file", d |-> "file", j |-> "file", g |-> "file",
         m |-> "file", x |-> "file", h |-> "https", p |-> "http", q |-> "https"]

\* values a .cfg cannot express (tuples), substituted with `<-`
Roots_r == {<<"r">>}
Roots_rg == {<<"r">>, <<"r", "g">>, <<"g">>, <<"j">>, <<"g", "r">>, <<"a", "r">>}
Roots_h == {<<"h">>, <<"r">>, <<"q">>}
Roots_ra == {<<"r">>, <<"a">>}
ST_none == {}
ST_bd == {<<"b", "d">>}
ST_bd_bm == {<<"b", "d">>, <<"b", "m">>}

VARIABLES w, edit, step
vars == <<w, edit, step>>

AttrsFor(t) == IF JsonAttr /\ t \in DOMAIN ExtT /\ ExtT[t] = "json" THEN {"none", "json"} ELSE {"none"}
ItemSet(s) ==
  { [t |-> t, sp |-> sp, f |-> f, a |-> a, tt |-> tt] :
      t \in Targets, sp \in {"0", "1"}, f \in Forms, a \in {"none", "json"}, tt \in TsTypes \cup {"-"} }
ItemOk(s, it) ==
  /\ it.sp = "1" => it.t \in Sp1
  /\ it.a \in AttrsFor(it.t)
  /\ it.a # "none" => it.f \in {"static", "dynamic", "export"}
  /\ it.tt # "-" => it.f = "static" /\ it.tt # it.t /\ it.a = "none"
  /\ it.f = "jsdoc" => ExtT[s] \in {"js", "jsx"}
  /\ it.f = "type" => ExtT[s] \in {"ts", "tsx", "dts"}      \* `import type` does not parse in JavaScript
  /\ ExtT[s] = "dts" => it.f \in {"static", "export", "type"}
  /\ it.t = "!bad" => it.sp = "0"
Items(s) == { it \in ItemSet(s) : ItemOk(s, it) }
SeqsUpTo(S, n) == UNION { [1..k -> S] : k \in 0..n }
StChoices(s) == {"-"} \cup { pr[2] : pr \in { q \in SelfTypes : q[1] = s } }
RespSet(s) ==
  { [k |-> "mod", items |-> its, st |-> st] :
      its \in (IF s \in WithItems THEN SeqsUpTo(Items(s), IF s \in Big THEN MaxRoot ELSE MaxOther) ELSE {<<>>}),
      st \in StChoices(s) }
  \cup (IF s \in MayMiss THEN {[k |-> "missing"]} ELSE {})
  \cup (IF s \in MayErr THEN {[k |-> "err"], [k |-> "external"]} ELSE {})
  \cup (IF s \in MayRedirect THEN { [k |-> "redirect", to |-> t] : t \in Specs \ {s} } ELSE {})

\* same-attribute proviso of C01/C17/C19: all imports of one target use the same `type` attribute
SameAttr(ww) ==
  \A s1, s2 \in Specs : ww.mods[s1].k = "mod" /\ ww.mods[s2].k = "mod" =>
    \A i \in DOMAIN ww.mods[s1].items, k \in DOMAIN ww.mods[s2].items :
       ww.mods[s1].items[i].t = ww.mods[s2].items[k].t => ww.mods[s1].items[i].a = ww.mods[s2].items[k].a

\* canonical form: specifiers that nothing can reach carry the default response, so that worlds
\* differing only in unreachable parts are enumerated once
RefsOf(ww, s) ==
  IF ww.mods[s].k = "redirect" THEN {ww.mods[s].to}
  ELSE IF ww.mods[s].k = "mod" THEN
       ({ ww.mods[s].items[i].t : i \in DOMAIN ww.mods[s].items } \cup { ww.mods[s].items[i].tt : i \in DOMAIN ww.mods[s].items }
        \cup {ww.mods[s].st}) \cap Specs
  ELSE {}
RECURSIVE SyntReach(_, _)
SyntReach(ww, S) == LET T == S \cup UNION { RefsOf(ww, s) : s \in S } IN IF T = S THEN S ELSE SyntReach(ww, T)
DefaultResp(s) == IF s \in MayMiss /\ s \notin WithItems THEN [k |-> "missing"] ELSE [k |-> "mod", items |-> <<>>, st |-> "-"]
Canonical(ww) == \A s \in Specs \ SyntReach(ww, SeqToSet(ww.roots)) : ww.mods[s] = DefaultResp(s)

RS(s) == IF s \in Specs THEN RespSet(s) ELSE {[k |-> "absent"]}
Init ==
  /\ step = 0
  /\ \E fr \in RS("r"), fa \in RS("a"), fb \in RS("b"), fc \in RS("c"), fd \in RS("d"), fj \in RS("j"),
        fg \in RS("g"), fm \in RS("m"), fx \in RS("x"), fh \in RS("h"), fp \in RS("p"), fq \in RS("q"),
        roots \in RootChoices :
       LET all == [r |-> fr, a |-> fa, b |-> fb, c |-> fc, d |-> fd, j |-> fj, g |-> fg, m |-> fm, x |-> fx, h |-> fh, p |-> fp, q |-> fq]
       IN /\ w = [mods |-> [s \in Specs |-> all[s]], ext |-> [s \in Specs |-> ExtT[s]], sch |-> [s \in Specs |-> SchT[s]], roots |-> roots]
          /\ SameAttr(w)
          /\ Canonical(w)
  /\ \E es \in (IF Edits THEN Specs ELSE {"-"}) :
       \E nr \in (IF Edits THEN RespSet(es) ELSE {[k |-> "absent"]}) :
          /\ edit = [s |-> es, resp |-> nr]
          \* the edited specifier had a source (module, missing, failing) in the old world; a specifier that used to
          \* answer with a redirect has no source of its own to reload (reload() documents itself as naive)
          /\ Edits => (nr # w.mods[es] /\ es \in SyntReach(w, SeqToSet(w.roots)) /\ w.mods[es].k # "redirect")
Next == step = 0 /\ step' = 1 /\ UNCHANGED <<w, edit>>
Spec == Init /\ [][Next]_vars

Kinds == {"all", "code", "types"}
Opt(k) == [kind |-> k, isDynamic |-> OptIsDynamic, skipDynamic |-> OptSkipDynamic, maxRedirects |-> 10]
B(k) == Build(w, w.roots, Opt(k))

\* ---- design-level properties ------------------------------------------------
SelfRedirect == \E s \in Specs : w.mods[s].k = "redirect" /\ w.mods[s].to = s
NoPendingInv == step = 1 => \A k \in Kinds : NoPending(B(k))

\* C01 closure: entries and redirect sources = declarative reachable set
RootLike == LET RECURSIVE RL(_)
                RL(S) == LET T == S \cup { w.mods[s].to : s \in { x \in S : w.mods[x].k = "redirect" } } IN IF T = S THEN S ELSE RL(T)
            IN RL(SeqToSet(w.roots))
SuccC(s, o) == IF w.ext[s] = "noext" /\ s \notin RootLike THEN (IF w.mods[s].k = "redirect" THEN {w.mods[s].to} ELSE {})
               ELSE Succ(w, s, o)
RECURSIVE ReachFix(_, _)
ReachFix(S, o) == LET T == S \cup UNION { SuccC(s, o) : s \in S } IN IF T = S THEN S ELSE ReachFix(T, o)
ReachDecl(o) == ReachFix(SeqToSet(w.roots), o)
\* worlds in which load admission does not depend on the first-load context (CTX family excluded):
\* the closure statement is context-free only there
CtxSensitive(s) == w.ext[s] \in {"json", "noext"}
ClosureInv == step = 1 => \A k \in Kinds :
   LET g == B(k) IN (DOMAIN g.slots) \cup (DOMAIN g.redirects) = ReachDecl(Opt(k))

\* C17: prune(All) observationally equals CodeOnly
C17Inv == step = 1 => LET pa == Prune(B("all")) IN ObsCode(pa) = ObsCode(B("code")) /\ NoTypesLeft(pa) /\ ValidCoded(pa) = ValidCoded(B("code"))
\* known family CTX (F5): entries whose admission depends on the first-load context differ
CtxTargets == { s \in Specs : CtxSensitive(s) }
C17InvModCtx == step = 1 =>
   LET pa == Prune(B("all"))  co == B("code")
       diff == { s \in (DOMAIN pa.slots) \cup (DOMAIN co.slots) :
                   ~(s \in DOMAIN pa.slots /\ s \in DOMAIN co.slots /\ ObsCode(pa).slots[s] = ObsCode(co).slots[s]) }
   IN diff \subseteq CtxTargets /\ pa.redirects = co.redirects /\ NoTypesLeft(pa)

\* C19 (first half): incremental = at once; rebuilding with known roots is the identity
C19Inv == step = 1 => \A k \in Kinds : \A r2 \in Specs :
   LET g1 == B(k)
       inc == BuildOn(w, g1, <<r2>>, Opt(k))
       once == Build(w, w.roots \o <<r2>>, Opt(k))
       same == BuildOn(w, g1, w.roots, Opt(k))
   IN /\ same = g1
      /\ SeqToSet(inc.roots) = SeqToSet(once.roots)
      /\ (\A s \in (DOMAIN inc.slots) \cup (DOMAIN once.slots) :
            (s \in DOMAIN inc.slots /\ s \in DOMAIN once.slots /\ SlotObs(inc.slots[s]) = SlotObs(once.slots[s])) \/ s \in CtxTargets)

\* C19 (second half): reload of an edited specifier converges to the from-scratch build of the new sources
W2 == IF Edits THEN [w EXCEPT !.mods[edit.s] = edit.resp] ELSE w
R(k) == Reload(W2, B(k), <<edit.s>>, Opt(k))
Fresh(k) == Build(W2, w.roots, Opt(k))
C19ReloadInv == (step = 1 /\ Edits) => \A k \in Kinds :
   LET g1 == B(k)  g2 == R(k)  fr == Fresh(k)
       reach == (DOMAIN fr.slots) \cup (DOMAIN fr.redirects)
   IN /\ NoPending(g2)
      /\ \A s \in DOMAIN fr.slots : (s \in DOMAIN g2.slots /\ SlotObs(g2.slots[s]) = SlotObs(fr.slots[s])) \/ s \in CtxTargets
      /\ \A s \in (DOMAIN g1.slots) \ (reach \cup {edit.s}) : s \in DOMAIN g2.slots /\ g2.slots[s] = g1.slots[s]

\* ---- emission ----------------------------------------------------------------
NoSch(g) == [f \in (DOMAIN g) \ {"sch"} |-> g[f]]
BOpts == [isDynamic |-> OptIsDynamic, skipDynamic |-> OptSkipDynamic]
Case == IF Edits THEN [opts |-> BOpts, w |-> w, graphs |-> [k \in Kinds |-> NoSch(B(k))], edit |-> edit, reloaded |-> [k \in Kinds |-> NoSch(R(k))]]
        ELSE [opts |-> BOpts, w |-> w, graphs |-> [k \in Kinds |-> NoSch(B(k))]]
EmitInv == (step = 1 /\ Emit) => PrintT(<<"REPLAY", ToJson(Case)>>)
=============================================================================
