SPECIFICATION Spec
CONSTANTS
  MaxR = 3
  MaxA = 1
  MaxE = 1
  Emit = TRUE
INVARIANT SettledInv
INVARIANT DepFailInv
INVARIANT EmitInv
CHECK_DEADLOCK FALSE
