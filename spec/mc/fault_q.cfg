SPECIFICATION Spec
CONSTANTS
  Specs = {"r", "a", "b", "m"}
  WithItems = {"r", "a", "b"}
  Big = {"r"}
  MaxRoot = 2
  MaxOther = 1
  Forms = {"static", "dynamic", "type"}
  Targets = {"a", "b", "m"}
  Sp1 = {}
  MayMiss = {"a", "b", "m"}
  MayRedirect = {"a", "b"}
  MayErr = {"a", "b", "m"}
  RootChoices <- Roots_ra
  SelfTypes <- ST_none
  TsTypes = {}
  JsonAttr = FALSE
  Emit = TRUE
  OptIsDynamic = FALSE
  OptSkipDynamic = FALSE
  Edits = FALSE
INVARIANT NoPendingInv
INVARIANT EmitInv
CHECK_DEADLOCK FALSE
