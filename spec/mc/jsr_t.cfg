SPECIFICATION Spec
CONSTANTS
  Pub = {1, 2, 4, 5}
  ExistSets = "small"
  Reqs = {"*", "1", "^1.1.0", "1.1.0", "~1.0", "~1.1", "2", "^2.0.0-rc.1", "3", "^1.5.0"}
INVARIANT Agree
INVARIANT Sound
INVARIANT Generic
INVARIANT EmitInv
CHECK_DEADLOCK FALSE
