SPECIFICATION Spec
CONSTANTS
  Mods = {"e", "a", "b"}
  Names = {"x", "y", "default"}
  MaxStars = 1
  MaxStarsEntry = 2
  Entry = "e"
INVARIANT Agree
INVARIANT OwnWin
INVARIANT EmitInv
CHECK_DEADLOCK FALSE
