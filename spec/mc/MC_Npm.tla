------------------------------- MODULE MC_Npm -------------------------------
(* npm: specifiers with an NpmResolver (C03: every requested specifier is    *)
(* settled under resolver faults; C01: the closure contains them).           *)
(* Vocabulary: root r, a statically imported module a, a dynamically         *)
(* imported module e, npm specifiers n1, n2 (same requirement, two sub       *)
(* paths) and n3 (another requirement). Every world = imports of r, a and e  *)
(* over these x {static, dynamic} x resolver mode (absent / failing          *)
(* requirements / failing dependency-graph resolution).                      *)
EXTENDS Build, TLC, Json

CONSTANTS MaxR, MaxA, MaxE, Emit

Specs == {"r", "a", "e", "n1", "n2", "n3"}
NpmIds == {"n1", "n2", "n3"}
ReqOf == [n1 |-> "left@1", n2 |-> "left@1", n3 |-> "chalk@5"]
UrlOf == [n1 |-> "npm:left@1/one", n2 |-> "npm:left@1/two", n3 |-> "npm:chalk@5"]
ExtT == [r |-> "ts", a |-> "ts", e |-> "ts", n1 |-> "ts", n2 |-> "ts", n3 |-> "ts"]
SchT == [r |-> "file", a |-> "file", e |-> "file", n1 |-> "npm", n2 |-> "npm", n3 |-> "npm"]

VARIABLES w, step
vars == <<w, step>>

It(t, f) == [t |-> t, sp |-> "0", f |-> f, a |-> "none", tt |-> "-"]
NpmItems == { It(t, f) : t \in NpmIds, f \in {"static", "dynamic"} }
SeqsUpTo(S, n) == UNION { [1..k -> S] : k \in 0..n }
\* r always imports a statically and e dynamically, after its own npm imports (prefix) or before them (suffix)
Modes == { [on |-> FALSE, failing |-> {}, depFail |-> FALSE] }
         \cup { [on |-> TRUE, failing |-> F, depFail |-> d] : F \in SUBSET {"left@1", "chalk@5"}, d \in BOOLEAN }
Init ==
  /\ step = 0
  /\ \E ir \in SeqsUpTo(NpmItems, MaxR), ia \in SeqsUpTo(NpmItems, MaxA), ie \in SeqsUpTo(NpmItems, MaxE),
        first \in BOOLEAN, md \in Modes :
       LET fixed == <<It("a", "static"), It("e", "dynamic")>>
           mods == [s \in Specs |->
                      IF s = "r" THEN [k |-> "mod", items |-> IF first THEN fixed \o ir ELSE ir \o fixed, st |-> "-"]
                      ELSE IF s = "a" THEN [k |-> "mod", items |-> ia, st |-> "-"]
                      ELSE IF s = "e" THEN [k |-> "mod", items |-> ie, st |-> "-"]
                      ELSE [k |-> "npm", req |-> ReqOf[s]]]
       IN w = [mods |-> mods, ext |-> ExtT, sch |-> SchT, roots |-> <<"r">>, urls |-> UrlOf,
               npm |-> [on |-> md.on, failing |-> md.failing, depFail |-> md.depFail]]
Next == step = 0 /\ step' = 1 /\ UNCHANGED w
Spec == Init /\ [][Next]_vars

Kinds == {"all", "code", "types"}
Opt(k) == [kind |-> k, isDynamic |-> FALSE, skipDynamic |-> FALSE, maxRedirects |-> 10]
B(k) == Build(w, w.roots, Opt(k))

\* the npm specifiers a build must settle: targets of the imports of the modules that are in the graph
Requested(g) == UNION { { w.mods[m].items[i].t : i \in DOMAIN w.mods[m].items } \cap NpmIds
                        : m \in { x \in {"r", "a", "e"} : x \in DOMAIN g.slots } }
\* design level: the resolution pass as coded settles every requested specifier the way the property says
SettledInv == step = 1 => \A k \in Kinds :
   LET g == B(k) IN
   /\ NoPending(g)
   /\ (DOMAIN g.slots) \cap NpmIds = Requested(g)
   /\ w.npm.on => NpmSettled(w, g, Requested(g))
   /\ ~w.npm.on => \A s \in Requested(g) : g.slots[s].k = "mod" /\ g.slots[s].cls = "ext"
\* with a failing dependency graph an npm specifier is an error exactly when its last request came from a dynamic branch;
\* requests from the static branch only never fail for that reason
StaticOnly(s) == /\ \A i \in DOMAIN w.mods["r"].items : w.mods["r"].items[i].t = s => w.mods["r"].items[i].f = "static"
                 /\ \A i \in DOMAIN w.mods["a"].items : w.mods["a"].items[i].t = s => w.mods["a"].items[i].f = "static"
                 /\ \A i \in DOMAIN w.mods["e"].items : w.mods["e"].items[i].t # s
DepFailInv == (step = 1 /\ w.npm.on /\ w.npm.depFail) => \A k \in Kinds :
   LET g == B(k) IN \A s \in Requested(g) :
      (StaticOnly(s) /\ w.mods[s].req \notin w.npm.failing) => g.slots[s] = NpmSlot

NoSch(g) == [f \in (DOMAIN g) \ {"sch"} |-> g[f]]
Case == [w |-> w, graphs |-> [k \in Kinds |-> NoSch(B(k))]]
EmitInv == (step = 1 /\ Emit) => PrintT(<<"REPLAY", ToJson(Case)>>)
=============================================================================
