SPECIFICATION Spec
CONSTANTS
  Specs = {"r", "a", "g", "j", "m"}
  WithItems = {"r", "a", "g"}
  Big = {"r"}
  MaxRoot = 2
  MaxOther = 1
  Forms = {"static", "dynamic", "type"}
  Targets = {"a", "g", "j", "m"}
  Sp1 = {"g"}
  MayMiss = {"m"}
  MayRedirect = {"a"}
  MayErr = {}
  RootChoices <- Roots_rg
  SelfTypes <- ST_none
  TsTypes = {}
  JsonAttr = FALSE
  Emit = TRUE
  OptIsDynamic = FALSE
  OptSkipDynamic = FALSE
  Edits = FALSE
INVARIANT NoPendingInv
INVARIANT EmitInv
CHECK_DEADLOCK FALSE
