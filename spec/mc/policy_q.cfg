SPECIFICATION Spec
CONSTANTS
  Specs = {"h", "p", "q", "r", "m"}
  WithItems = {"h", "q", "r"}
  Big = {"h"}
  MaxRoot = 2
  MaxOther = 1
  Forms = {"static", "dynamic", "type"}
  Targets = {"p", "q", "r", "m", "h"}
  Sp1 = {"r"}
  MayMiss = {"m"}
  MayRedirect = {}
  MayErr = {}
  RootChoices <- Roots_h
  SelfTypes <- ST_none
  TsTypes = {}
  JsonAttr = FALSE
  Emit = TRUE
  OptIsDynamic = FALSE
  OptSkipDynamic = FALSE
  Edits = FALSE
INVARIANT NoPendingInv
INVARIANT EmitInv
CHECK_DEADLOCK FALSE
