INIT InitS
NEXT NextS
CONSTANTS
  Specs = {"r", "a", "b", "m"}
  WithItems = {"r", "a", "b"}
  Big = {"r"}
  MaxRoot = 2
  MaxOther = 1
  Forms = {"static", "dynamic"}
  Targets = {"a", "b", "m"}
  Sp1 = {}
  MayMiss = {"m"}
  MayRedirect = {"a"}
  MayErr = {}
  RootChoices <- Roots_ra
  SelfTypes <- ST_none
  TsTypes = {}
  JsonAttr = FALSE
  Emit = FALSE
  OptIsDynamic = FALSE
  OptSkipDynamic = FALSE
  Edits = FALSE
  KindS = "all"
  EmitSched = TRUE
INVARIANT Deterministic
INVARIANT EmitS
CHECK_DEADLOCK FALSE
