SPECIFICATION Spec
CONSTANTS
  Specs = {"r", "a", "b", "c", "m"}
  WithItems = {"r", "a", "b", "c"}
  Big = {"r"}
  MaxRoot = 1
  MaxOther = 1
  Forms = {"static", "dynamic"}
  Targets = {"a", "b", "c", "m"}
  Sp1 = {}
  MayMiss = {"m"}
  MayRedirect = {"a", "b", "c"}
  MayErr = {"c"}
  RootChoices <- Roots_ra
  SelfTypes <- ST_none
  TsTypes = {}
  JsonAttr = FALSE
  Emit = TRUE
  OptIsDynamic = FALSE
  OptSkipDynamic = FALSE
  Edits = FALSE
INVARIANT NoPendingInv
INVARIANT EmitInv
CHECK_DEADLOCK FALSE
