SPECIFICATION Spec
CONSTANTS
  MaxR = 2
  MaxSpecs = 2
  Emit = TRUE
INVARIANT ClosureInv
INVARIANT RecordsInv
INVARIANT RebuildInv
INVARIANT PruneInv
INVARIANT EmitInv
CHECK_DEADLOCK FALSE
