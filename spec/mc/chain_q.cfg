SPECIFICATION Spec
CONSTANTS
  MaxLen = 13
  Limits = {10, 3}
INVARIANT NoPendingInv
INVARIANT AgreeInv
INVARIANT EmitInv
CHECK_DEADLOCK FALSE
