------------------------------- MODULE MC_Jsr -------------------------------
(* C06: the whole bounded domain of resolve_version(): every registry over   *)
(* the published versions (absent / present x yanked x creation date), every *)
(* requirement, every set of already-selected versions (incl. one unknown to *)
(* the registry), every set of cached manifests, cutoff on/off.  Design      *)
(* level: tiers as coded == the property statement.  Each registry prints    *)
(* one REPLAY line carrying the predicted result of every combination; the   *)
(* harness calls the real resolve_version on each (spec -> impl, exhaustive).*)
EXTENDS Jsr, TLC, Json

CONSTANTS Pub,        \* subset of Published that may be present
          ExistSets,  \* "small" | "all"
          Reqs

VARIABLES reg, step
vars == <<reg, step>>

Absent == [p |-> FALSE, yanked |-> FALSE, date |-> "none"]
VState == {Absent} \cup [p : {TRUE}, yanked : BOOLEAN, date : {"none", "old", "new"}]
Init == /\ step = 0
        /\ reg \in [Published -> VState]
        /\ \A i \in Published \ Pub : reg[i] = Absent
Next == step = 0 /\ step' = 1 /\ UNCHANGED reg
Spec == Init /\ [][Next]_vars

ExistingSets == IF ExistSets = "all" THEN SUBSET (Pub \cup {Unknown})
                ELSE {{}} \cup { {v} : v \in Pub \cup {Unknown} } \cup { {v, Unknown} : v \in Pub }
CachedSets == SUBSET Pub
Combos == { <<r, e, c, co>> : r \in Reqs, e \in ExistingSets, c \in CachedSets, co \in BOOLEAN }

Agree == step = 1 => \A x \in Combos : Operational(reg, x[1], x[2], x[3], x[4]) = Declarative(reg, x[1], x[2], x[3], x[4])
\* the generic form used by the trace specification coincides with the indexed form
RegG == [i \in Present(reg) |-> reg[i]]
RankG == [i \in 1..6 |-> Rank(i)]
Generic == step = 1 => \A x \in Combos :
   SelectG(RegG, RankG, MatchSet(x[1]), x[2], x[3], x[4]) = Declarative(reg, x[1], x[2], x[3], x[4])
\* soundness of the statement itself: the result satisfies the requirement and comes from the
\* registry or the already-selected set
Sound == step = 1 => \A x \in Combos :
   LET d == Declarative(reg, x[1], x[2], x[3], x[4]) IN
   d.t = "ok" => Matches(x[1], d.v) /\ (d.v \in Present(reg) \/ d.v \in x[2])

\* compact emission: versions by index into Vers, requirements by text;
\* combo = <<req, existing, cached, cutoff, result>>, result = <<"ok", v, yanked>> | <<"nf", newer>>
Out(d) == IF d.t = "ok" THEN <<"ok", d.v, d.yanked>> ELSE <<"nf", d.newer>>
Case == [ vers |-> Vers,
          reg |-> { <<i, reg[i].yanked, reg[i].date>> : i \in Present(reg) },
          matches |-> [r \in Reqs |-> MatchSet(r)],
          combos |-> { <<x[1], x[2], x[3], x[4], Out(Declarative(reg, x[1], x[2], x[3], x[4]))>> : x \in Combos } ]
EmitInv == step = 1 => PrintT(<<"REPLAY", ToJson(Case)>>)
=============================================================================
