SPECIFICATION Spec
CONSTANTS
  Specs = {"r", "a", "b", "d", "j", "m"}
  WithItems = {"r", "b"}
  Big = {"r"}
  MaxRoot = 2
  MaxOther = 1
  Forms = {"static", "dynamic", "type"}
  Targets = {"a", "b", "j", "m", "!bad"}
  Sp1 = {"a"}
  MayMiss = {"m"}
  MayRedirect = {}
  MayErr = {}
  RootChoices <- Roots_r
  SelfTypes <- ST_bd
  TsTypes = {"d"}
  JsonAttr = TRUE
  Emit = TRUE
  OptIsDynamic = TRUE
  OptSkipDynamic = FALSE
  Edits = FALSE
INVARIANT NoPendingInv
INVARIANT EmitInv
CHECK_DEADLOCK FALSE
