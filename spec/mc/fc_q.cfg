SPECIFICATION Spec
CONSTANTS
  Mods = {"e", "a"}
  Entry = "e"
  Decls = {"d1", "d2"}
  AliasIds = {"i1"}
  Names = {"n1", "n2"}
  MaxRefs = 1
  Emit = TRUE
  AliasMods = {"e", "a", "b"}
  NsAlias = FALSE
  StarMode = "any"
  ModRefs = TRUE
INVARIANT Agree
INVARIANT Closed
INVARIANT TracedAgree
INVARIANT EmitInv
CHECK_DEADLOCK FALSE
