SPECIFICATION Spec
CONSTANTS
  MaxLen = 14
  Limits = {10, 3, 0, 1, 12}
INVARIANT NoPendingInv
INVARIANT AgreeInv
INVARIANT EmitInv
CHECK_DEADLOCK FALSE
