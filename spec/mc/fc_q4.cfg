SPECIFICATION Spec
CONSTANTS
  Mods = {"e", "a", "b", "c"}
  Entry = "e"
  Decls = {"d1"}
  AliasIds = {"i1", "i2"}
  Names = {"n1"}
  MaxRefs = 2
  Emit = TRUE
  AliasMods = {"e"}
  NsAlias = TRUE
  StarMode = "chain"
  ModRefs = FALSE
INVARIANT Agree
INVARIANT Closed
INVARIANT TracedAgree
INVARIANT EmitInv
CHECK_DEADLOCK FALSE
