------------------------------ MODULE Encoding ------------------------------
(* C20: which charset decodes the bytes a loader supplied, what the stored   *)
(* text is, and what try_get_original_bytes() may return.                    *)
(*   charset selection: graph.rs new_source_with_text (header charset,       *)
(*   else detect_charset: BOM sniffing for file: URLs only, else utf-8)      *)
(*   original bytes: ModuleTextSource::try_get_original_bytes 1436-1456      *)
EXTENDS Naturals, Sequences

\* "jsr": a registry package file reached through a jsr: specifier whose version manifest embeds module information,
\* with a cold loader cache, so that the module is created first and its content arrives through the deferred content
\* load (handle_jsr_registry_pending_content_loads); registry loads carry no charset (always none here)
Schemes == {"file", "https", "jsr"}
Headers == {"none", "utf-8", "utf-16le", "utf-16be", "windows-1252", "bogus"}
\* byte classes of the supplied content
Classes == {"ascii", "utf8", "utf8bom", "utf16le_bom", "utf16be_bom", "utf16le_nobom", "invalid_utf8", "empty"}

\* the charset the bytes are decoded with
CharsetUsed(scheme, header, cls) ==
  IF scheme = "jsr" THEN "utf-8"
  ELSE IF header # "none" THEN header
  ELSE IF scheme = "file" /\ cls = "utf16le_bom" THEN "utf-16le"
  ELSE IF scheme = "file" /\ cls = "utf16be_bom" THEN "utf-16be"
  ELSE "utf-8"

\* only an unsupported charset label is undecodable (the WHATWG decoders are total)
Outcome(scheme, header, cls) == IF CharsetUsed(scheme, header, cls) = "bogus" THEN "decodeError" ELSE "text"

\* are the supplied bytes already the UTF-8 encoding of the decoded text (decoder borrows its input)?
DecodesInPlace(charset, cls) ==
  \/ charset = "utf-8" /\ cls \in {"ascii", "utf8", "utf8bom", "empty"}
  \/ charset = "windows-1252" /\ cls \in {"ascii", "empty"}
\* a leading U+FEFF of the decoded text is removed
BomStripped(charset, cls) ==
  \/ charset = "utf-8" /\ cls = "utf8bom"
  \/ charset = "utf-16le" /\ cls = "utf16le_bom"
  \/ charset = "utf-16be" /\ cls = "utf16be_bom"

\* what try_get_original_bytes() returns: the supplied bytes ("same") or nothing ("none") -- never anything else
Original(scheme, header, cls) ==
  LET cs == CharsetUsed(scheme, header, cls) IN
  IF DecodesInPlace(cs, cls) THEN "same" ELSE "none"

Expected(scheme, header, cls) ==
  [charset |-> CharsetUsed(scheme, header, cls), outcome |-> Outcome(scheme, header, cls),
   bom |-> BomStripped(CharsetUsed(scheme, header, cls), cls), original |-> Original(scheme, header, cls)]
=============================================================================
