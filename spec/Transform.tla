------------------------------ MODULE Transform ------------------------------
(* C10: for a public-API declaration of a given shape, fast check either      *)
(* emits a declaration that satisfies the erasure predicate, or produces a    *)
(* diagnostic (and then no output for the package).  Outcome(shape) is the    *)
(* decision table transcribed from src/fast_check/transform.rs:               *)
(*   transform_fn 1117-1233, arrows 1235-1311, function body analysis         *)
(*   1313-1365, handle_param_pat 1367-1509, transform_var_declarator          *)
(*   1528-1591, transform_class(_member) 646-1115, transform_item 411-541.    *)
(* A shape is a record [fam, ...]; the outcome is a set of diagnostic codes   *)
(* ({} = emitted).                                                            *)
EXTENDS Naturals, FiniteSets, Sequences

RET == "missing-explicit-return-type"
TYP == "missing-explicit-type"

ParamForms == {"typed", "untyped", "default-lit", "default-call", "typed-default-call", "obj-typed", "obj-untyped", "rest-typed", "rest-untyped", "optional-typed"}
ParamCodes(p) ==
  CASE p \in {"typed", "default-lit", "typed-default-call", "obj-typed", "rest-typed", "optional-typed"} -> {}
    [] p \in {"untyped", "default-call", "obj-untyped", "rest-untyped"} -> {TYP}

Bodies == {"none", "void", "single", "multi"}
\* function declarations and methods: a missing return type is supplied only when the body cannot return a value
FnRetCodes(ret, body, gen) ==
  IF ret = "ann" THEN {} ELSE IF gen THEN {RET} ELSE IF body \in {"none", "void"} THEN {} ELSE {RET}

ArrowBodies == {"expr-lit", "expr-call", "block-none", "block-void", "block-single"}
\* function expressions / arrows: an expression body must be inferable, a block without any return statement is
\* reported ("definitely void") and only an explicit `return;` lets void be supplied
ArrowCodes(ret, body) ==
  IF ret = "ann" THEN {} ELSE
  CASE body = "expr-lit" -> {} [] body = "expr-call" -> {RET} [] body = "block-none" -> {RET} [] body = "block-void" -> {} [] body = "block-single" -> {RET}

VarInits == {"ann-call", "lit-num", "lit-str", "lit-bool", "lit-bigint", "call", "new", "as-simple", "arr", "obj", "tpl", "destruct", "arrow-ok", "neg-num",
             "arr-call-first", "arr-call-last", "arr-call-mid", "arr-nested-call", "obj-call", "obj-call-first", "obj-method", "cond-call", "tpl-call",
             "unary-call", "bin-call-left", "paren-call", "spread-call", "member-lit", "tagged-tpl", "seq", "assign", "optchain", "class-expr", "await-call"}
VarCodes(init) ==
  CASE init \in {"ann-call", "lit-num", "lit-str", "lit-bool", "lit-bigint", "as-simple", "arr", "obj", "tpl", "arrow-ok", "neg-num"} -> {}
    [] init \in {"call", "new"} -> {TYP}
    \* an initialiser is leavable only if every part of it is: a call / new / assignment / sequence / tagged template /
    \* class expression / optional chain / object method anywhere inside makes the whole initialiser non-leavable
    [] init \in {"arr-call-first", "arr-call-last", "arr-call-mid", "arr-nested-call", "obj-call", "obj-call-first", "obj-method", "cond-call",
                 "unary-call", "bin-call-left", "paren-call", "spread-call", "tagged-tpl", "seq", "assign", "optchain", "class-expr", "await-call"} -> {TYP}
    \* an untagged template is of type string whatever it interpolates (the initialiser is then replaced by a placeholder)
    [] init \in {"member-lit", "tpl-call"} -> {}
    [] init = "destruct" -> {"unsupported-destructuring"}

Members == {"prop-arr-call-first", "static-prop-arr-call-first", "method-default-arr-call-first", "prop-ann", "prop-lit", "prop-call", "priv-prop-call", "hash-prop-call", "method-ann", "method-infer", "method-void", "getter-none", "getter-ann",
            "setter-typed", "setter-untyped", "priv-method-infer", "ctor-param-prop", "ctor-untyped", "priv-ctor-untyped", "static-block", "static-prop-call",
            "accessor-ann", "readonly-lit", "optional-method-ann",
            \* decorators are removed wherever they stand (class, property, method, accessor, parameter); never a diagnostic
            "dec-prop-ann", "dec-static-prop-ann", "dec-prop-lit", "dec-priv-prop", "dec-method", "dec-accessor", "dec-getter", "dec-param",
            "dec-ctor-param-prop", "dec-class"}
MemberCodes(m) ==
  CASE m \in {"prop-ann", "prop-lit", "priv-prop-call", "hash-prop-call", "method-ann", "method-void", "getter-ann", "setter-typed", "priv-method-infer",
              "ctor-param-prop", "priv-ctor-untyped", "static-block", "accessor-ann", "readonly-lit", "optional-method-ann",
              "dec-prop-ann", "dec-static-prop-ann", "dec-prop-lit", "dec-priv-prop", "dec-method", "dec-accessor", "dec-getter", "dec-param",
              "dec-ctor-param-prop", "dec-class"} -> {}
    [] m \in {"prop-call", "static-prop-call", "setter-untyped", "ctor-untyped", "prop-arr-call-first", "static-prop-arr-call-first", "method-default-arr-call-first"} -> {TYP}
    [] m \in {"method-infer", "getter-none"} -> {RET}

Miscs == {"export-assign", "export-as-namespace", "import-require", "declare-global", "ambient-module", "default-lit", "default-call", "default-ident",
          "extends-call", "extends-ident", "expando-lit", "expando-call", "enum", "interface", "type-alias", "namespace", "overloads", "side-effect-stmt"}
MiscCodes(m) ==
  CASE m = "export-assign" -> {"unsupported-ts-export-assignment"}
    [] m = "export-as-namespace" -> {"unsupported-ts-namespace-export"}
    [] m = "import-require" -> {"unsupported-require"}
    [] m = "declare-global" -> {"unsupported-global-module"}
    [] m = "ambient-module" -> {"unsupported-ambient-module"}
    [] m = "default-call" -> {"unsupported-default-export-expr"}
    [] m = "extends-call" -> {"unsupported-super-class-expr"}
    \* an expando property whose value is neither inferable nor leavable needs an explicit type
    [] m = "expando-call" -> {TYP}
    [] OTHER -> {}

(***************************************************************************)
(* Parameter lists (C11: signatures are carried over, apart from the       *)
(* optional / default-parameter normalisation; C10: every parameter keeps  *)
(* an explicit type).  ParamsOptionalStartIndex 2233-2268 and              *)
(* handle_param_pat 1367-1509: a parameter with a default value becomes    *)
(* `p?: T` when every parameter after it can be omitted by a caller, and   *)
(* `p: T | undefined` otherwise.                                           *)
(***************************************************************************)
PKinds == {"req", "opt", "def", "defAny", "defInfer", "rest", "obj"}
PCtx == {"fn", "method", "ctor", "arrow"}
IsOptKind(k) == k \in {"opt", "def", "defAny", "defInfer", "rest"}
\* as coded: the index of the first parameter of the trailing run of omittable parameters (0 = none)
RECURSIVE OptStart(_, _, _)
OptStart(ps, i, cur) == IF i > Len(ps) THEN cur
                        ELSE OptStart(ps, i + 1, IF IsOptKind(ps[i]) THEN (IF cur = 0 THEN i ELSE cur) ELSE 0)
OptionalAtCoded(ps, i) == LET st == OptStart(ps, 1, 0) IN st # 0 /\ i >= st
\* declaratively: a caller may omit parameter i exactly when it may omit every later one as well
OptionalAtDecl(ps, i) == \A j \in i..Len(ps) : IsOptKind(ps[j])
BaseType(k) == CASE k \in {"req", "opt", "def"} -> "string" [] k = "defAny" -> "any" [] k = "defInfer" -> "number" [] k = "rest" -> "string[]" [] k = "obj" -> "Rec"
EmitParam(ps, i) ==
  LET k == ps[i] IN
  IF k = "req" THEN [form |-> "ident", o |-> FALSE, t |-> BaseType(k)]
  ELSE IF k = "opt" THEN [form |-> "ident", o |-> TRUE, t |-> BaseType(k)]
  ELSE IF k = "rest" THEN [form |-> "rest", o |-> FALSE, t |-> BaseType(k)]
  ELSE IF k = "obj" THEN [form |-> "object", o |-> FALSE, t |-> BaseType(k)]
  ELSE IF OptionalAtCoded(ps, i) THEN [form |-> "ident", o |-> TRUE, t |-> BaseType(k)]
  ELSE [form |-> "ident", o |-> FALSE, t |-> BaseType(k) \o "|undefined"]
EmitSig(ps) == [i \in 1..Len(ps) |-> EmitParam(ps, i)]
ParamSeqOk(ps) == /\ \A i \in 1..Len(ps) : ps[i] = "rest" => i = Len(ps)
                  /\ \A i \in 1..Len(ps) : ps[i] = "opt" => \A j \in i..Len(ps) : IsOptKind(ps[j])    \* TS1016
ParamSeqs(n) == { ps \in UNION { [1..k -> PKinds] : k \in 1..n } : ParamSeqOk(ps) }

Shapes ==
  [fam : {"params"}, ctx : PCtx, ps : ParamSeqs(3)]
  \cup [fam : {"fn"}, ret : {"ann", "none"}, body : Bodies, async : BOOLEAN, gen : BOOLEAN, param : ParamForms]
  \cup [fam : {"arrow"}, ret : {"ann", "none"}, body : ArrowBodies, async : BOOLEAN, param : {"typed", "untyped", "default-lit"}]
  \cup [fam : {"var"}, kind : {"const", "let"}, init : VarInits]
  \cup [fam : {"member"}, member : Members]
  \cup [fam : {"misc"}, misc : Miscs]

Outcome(s) ==
  CASE s.fam = "fn" -> FnRetCodes(s.ret, s.body, s.gen) \cup ParamCodes(s.param)
    [] s.fam = "arrow" -> ArrowCodes(s.ret, s.body) \cup ParamCodes(s.param)
    [] s.fam = "var" -> VarCodes(s.init)
    [] s.fam = "member" -> MemberCodes(s.member)
    [] s.fam = "misc" -> MiscCodes(s.misc)
    [] s.fam = "params" -> {}
=============================================================================
