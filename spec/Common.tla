------------------------------- MODULE Common -------------------------------
(* Helpers shared by every module of the deno_graph specification family.   *)
(* Conventions (DESIGN Appendix E): optionals and resolutions are tagged    *)
(* records so that TLC never compares values of different kinds.            *)
EXTENDS Naturals, Sequences, FiniteSets

NONE == [t |-> "none"]
Ok(s) == [t |-> "ok", ok |-> s]
ErrR(e) == [t |-> "err", ek |-> e]
IsOk(r) == r.t = "ok"
IsErrR(r) == r.t = "err"
IsNone(r) == r.t = "none"

SeqToSet(sq) == { sq[i] : i \in DOMAIN sq }
Last(sq) == sq[Len(sq)]

RECURSIVE SetToSeq(_)
SetToSeq(S) == IF S = {} THEN <<>> ELSE LET x == CHOOSE y \in S : TRUE IN <<x>> \o SetToSeq(S \ {x})

NoDupSeq(sq) == \A i, j \in DOMAIN sq : i # j => sq[i] # sq[j]

\* f with key k (re)bound to v; works for functions whose domain is a set of strings
Put(f, k, v) == [x \in (DOMAIN f) \cup {k} |-> IF x = k THEN v ELSE f[x]]
Del(f, k) == [x \in (DOMAIN f) \ {k} |-> f[x]]
Restrict(f, S) == [x \in (DOMAIN f) \cap S |-> f[x]]
EmptyFn == [x \in {} |-> x]

IncludeTypes(kind) == kind \in {"all", "types"}
IncludeCode(kind) == kind \in {"all", "code"}

RECURSIVE Fix(_, _)
\* least fixpoint of a monotone set operator Op above S (Op given as an operator argument)
Fix(Op(_), S) == LET T == S \cup Op(S) IN IF T = S THEN S ELSE Fix(Op, T)
=============================================================================
