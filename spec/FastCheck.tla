------------------------------ MODULE FastCheck ------------------------------
(* The fast-check public-range tracer (src/fast_check/range_finder.rs) over   *)
(* abstract programs, operational (worklist with the ImportedExports lattice  *)
(* as coded, any pop order) and declarative (the public API closure).         *)
(*                                                                           *)
(* A program (one package, entry module Entry):                               *)
(*   exported[m][d]  export name of declaration d of module m: "-" (private), *)
(*                   a name, or "default"                                     *)
(*   refs[m][d]      what the declaration's type positions mention: other     *)
(*                   declarations of m and import aliases of m                *)
(*   alias[m][a]     <<>> (unused), <<t, n>>: `import { n as a } from t`, or  *)
(*                   <<t, "*">>: `import * as a from t` (namespace import)    *)
(*   stars[m]        sequence of modules re-exported with `export * from`     *)
(*   modrefs[m][d]   modules the declaration mentions as a whole:             *)
(*                   `typeof import("./t.ts")` (requests every export of t,   *)
(*                   `default` included)                                      *)
EXTENDS Naturals, Sequences, FiniteSets

CONSTANTS Mods, Entry, Decls, AliasIds, Names

VARIABLES prog, pt, tr, pub
vars == <<prog, pt, tr, pub>>

exported == prog.exported
refs == prog.refs
alias == prog.alias
stars == prog.stars
modrefs == prog.modrefs

OwnNames(m) == { exported[m][d] : d \in Decls } \ {"-"}
OwnNoDefault(m) == OwnNames(m) \ {"default"}
DeclOf(m, n) == CHOOSE d \in Decls : exported[m][d] = n
StarSet(m) == { stars[m][i] : i \in DOMAIN stars[m] }

\* ES export resolution: own names win, star re-exports contribute their non-default names
RECURSIVE ExportsFix(_)
ExportsFix(E) ==
  LET E2 == [m \in Mods |-> OwnNames(m) \cup UNION { E[t] \ {"default"} : t \in StarSet(m) }] IN
  IF E2 = E THEN E ELSE ExportsFix(E2)
ExportsOf(m) == ExportsFix([x \in Mods |-> OwnNames(x)])[m]

\* declarations reachable through local references
RECURSIVE IdClose(_, _)
IdClose(m, S) == LET T == S \cup UNION { refs[m][d] \cap Decls : d \in S } IN IF T = S THEN S ELSE IdClose(m, T)
AliasesOf(m, ds) == { a \in UNION { refs[m][d] \cap AliasIds : d \in ds } : alias[m][a] # <<>> }

(***************************************************************************)
(* ImportedExports lattice as coded (range_finder.rs 41-278)               *)
(***************************************************************************)
Star == [k |-> "star"]  StarD == [k |-> "stard"]  Sub(N) == [k |-> "sub", n |-> N]
NoneV == [k |-> "none"]
\* add(self, new) -> <<self', newly added part or NoneV>>
Add(cur, new) ==
  CASE cur.k = "star" ->
         (CASE new.k = "star" -> <<cur, NoneV>>
            [] new.k = "stard" -> <<StarD, Sub({"default"})>>
            [] OTHER -> IF "default" \in new.n THEN <<StarD, Sub({"default"})>> ELSE <<cur, NoneV>>)
    [] cur.k = "stard" -> <<cur, NoneV>>
    [] OTHER ->
         (CASE new.k = "star" -> <<IF "default" \in cur.n THEN StarD ELSE Star, Star>>
            [] new.k = "stard" -> <<StarD, StarD>>
            [] OTHER -> <<Sub(cur.n \cup new.n), IF new.n \subseteq cur.n THEN NoneV ELSE Sub(new.n \ cur.n)>>)

Put(f, k, v) == [x \in (DOMAIN f) \cup {k} |-> IF x = k THEN v ELSE f[x]]
\* add_pending_trace: HandledExports::add, then PendingTraces::add with what was newly added
AddPending(p, t, m, ex) ==
  IF m \notin DOMAIN t THEN <<Put(p, m, IF m \in DOMAIN p THEN Add(p[m], ex)[1] ELSE ex), Put(t, m, ex)>>
  ELSE LET r == Add(t[m], ex) IN
       IF r[2].k = "none" THEN <<p, Put(t, m, r[1])>>
       ELSE <<Put(p, m, IF m \in DOMAIN p THEN Add(p[m], r[2])[1] ELSE r[2]), Put(t, m, r[1])>>

\* names of a subset request that m does not export itself are forwarded to the first star target resolving them
RECURSIVE Forward(_, _, _)
Forward(m, i, names) == IF i > Len(stars[m]) \/ names = {} THEN {} ELSE
  LET t == stars[m][i]  hit == { n \in names : n \in ExportsOf(t) /\ n # "default" } IN
  (IF hit = {} THEN {} ELSE {<<t, Sub(hit)>>}) \cup Forward(m, i + 1, names \ hit)

\* analyze_trace for one popped (module, exports): <<new public declarations, requests to other modules>>
Analyze(m, ex) ==
  LET wanted == IF ex.k = "star" THEN OwnNoDefault(m) ELSE IF ex.k = "stard" THEN OwnNames(m) ELSE ex.n \cap OwnNames(m)
      seeds == { DeclOf(m, n) : n \in wanted }
      ds == IdClose(m, seeds)
      \* a namespace import asks for every export of its target except `default` (from_file_dep_name, 154-163)
      viaAlias == { <<alias[m][a][1], IF alias[m][a][2] = "*" THEN Star ELSE Sub({alias[m][a][2]})>> : a \in AliasesOf(m, ds) }
      viaStar == IF ex.k \in {"star", "stard"} THEN { <<stars[m][i], Star>> : i \in DOMAIN stars[m] }
                 ELSE Forward(m, 1, ex.n \ OwnNames(m))
      \* an import type without member path asks for the whole module, default included (range_finder 1115-1133)
      viaModRef == { <<t, StarD>> : t \in UNION { modrefs[m][d] : d \in ds } }
  IN <<ds, viaAlias \cup viaStar \cup viaModRef>>

RECURSIVE AddAll(_, _, _)
AddAll(p, t, reqs) ==
  IF reqs = {} THEN <<p, t>>
  ELSE LET r == CHOOSE x \in reqs : TRUE
           nx == AddPending(p, t, r[1], r[2])
       IN AddAll(nx[1], nx[2], reqs \ {r})

\* one worklist step: any pending module may be popped (the order is not fixed by the code's HashMap)
Pop(m) ==
  /\ m \in DOMAIN pt
  /\ LET ex == pt[m]
         a == Analyze(m, ex)
         rest == [x \in (DOMAIN pt) \ {m} |-> pt[x]]
         nx == AddAll(rest, tr, a[2])
     IN /\ pub' = pub \cup { <<m, d>> : d \in a[1] }
        /\ pt' = nx[1] /\ tr' = nx[2]
  /\ UNCHANGED prog
Quiescent == DOMAIN pt = {}

(***************************************************************************)
(* Declarative public set: least fixpoint over wanted (module, name) pairs *)
(***************************************************************************)
RECURSIVE ReachStar(_)
ReachStar(S) == LET T == S \cup UNION { StarSet(m) : m \in S } IN IF T = S THEN S ELSE ReachStar(T)
NoDefaultOf(t) == UNION { { <<x, n>> : n \in OwnNoDefault(x) } : x \in ReachStar({t}) }
\* wanting a whole module = all its own names (default included) and the non-default names of what it star re-exports
WholeModule(t) == { <<t, n>> : n \in OwnNames(t) } \cup UNION { { <<x, n>> : n \in OwnNoDefault(x) } : x \in ReachStar({t}) \ {t} }
LocalRefs(p) == { <<p[1], d>> : d \in refs[p[1]][p[2]] \cap Decls }
AliasWants(p) == LET as == { x \in refs[p[1]][p[2]] \cap AliasIds : alias[p[1]][x] # <<>> } IN
                 { <<alias[p[1]][a][1], alias[p[1]][a][2]>> : a \in { x \in as : alias[p[1]][x][2] # "*" } }
                 \cup UNION { NoDefaultOf(alias[p[1]][a][1]) : a \in { x \in as : alias[p[1]][x][2] = "*" } }
StepD(wants, P) ==
  LET fromWants == { <<w[1], DeclOf(w[1], w[2])>> : w \in { x \in wants : x[2] \in OwnNames(x[1]) } }
      P2 == P \cup fromWants \cup UNION { LocalRefs(p) : p \in P }
      viaAlias == UNION { AliasWants(p) : p \in P } \cup UNION { UNION { WholeModule(t) : t \in modrefs[p[1]][p[2]] } : p \in P }
      forwarded == UNION { UNION { { <<fw[1], n>> : n \in fw[2].n } : fw \in Forward(w[1], 1, {w[2]}) }
                           : w \in { x \in wants : x[2] \notin OwnNames(x[1]) } }
  IN <<wants \cup viaAlias \cup forwarded, P2>>
RECURSIVE FixD(_, _)
FixD(wants, P) == LET s == StepD(wants, P) IN IF s = <<wants, P>> THEN s ELSE FixD(s[1], s[2])
InitialWants == { <<Entry, n>> : n \in OwnNames(Entry) }
                \cup UNION { { <<m, n>> : n \in OwnNoDefault(m) } : m \in ReachStar({Entry}) \ {Entry} }
PublicSet == FixD(InitialWants, {})[2]
\* modules that get an emitted module: the entry, everything star-reachable, everything some wanted name lives in
TracedSet == ReachStar({Entry}) \cup { w[1] : w \in FixD(InitialWants, {})[1] }
             \cup ReachStar(UNION { modrefs[p[1]][p[2]] : p \in PublicSet })
             \cup ReachStar(UNION { { alias[p[1]][a][1] : a \in { x \in refs[p[1]][p[2]] \cap AliasIds : alias[p[1]][x] # <<>> /\ alias[p[1]][x][2] = "*" } } : p \in PublicSet })
=============================================================================
