------------------------------ MODULE GraphOps ------------------------------
(* Queries on a built (or arbitrary) module graph: redirect following,       *)
(* lookups, the walk iterator, the error iterator / validation, prune_types  *)
(* and segment -- each written twice: "as coded" (operational, mirrors       *)
(* src/graph.rs line ranges given per operator) and declaratively (what the  *)
(* property statements C02, C14, C15, C17, C18 mean).                        *)
(*                                                                           *)
(* An abstract graph g is a record                                           *)
(*   kind      "all" | "code" | "types"                                      *)
(*   roots     sequence of specifiers                                        *)
(*   slots     function specifier -> slot                                    *)
(*   redirects function specifier -> specifier                               *)
(*   imports   sequence of [ref, deps]          (configured type imports)    *)
(*   sch       function specifier -> URL scheme (for the policy checks)      *)
(* slot = [k |-> "mod", cls, chk, deps, tdep (, fdeps)] | [k |-> "err", ek]  *)
(*      | [k |-> "pending"]                                                  *)
(*   cls  "js" (JsModule) | "json" | "wasm" | "npm" | "node" | "ext"         *)
(*   chk  "yes" | "no" | "js"   -- is_checkable(): js depends on check_js    *)
(*   deps sequence (IndexMap order) of [text, code, type, dyn, lf]           *)
(*        lf = the specifier text starts with "file://"                      *)
(*   tdep resolution of maybe_types_dependency (NONE when absent)            *)
(*   fdeps dependencies of the fast-check module, when one exists            *)
(* resolution = NONE | Ok(spec) | ErrR(kind)                                 *)
EXTENDS Common

MaxRedirectNodes == 10     \* const MAX_REDIRECTS in ModuleGraph::resolve

HasSlot(g, s) == s \in DOMAIN g.slots
IsMod(g, s) == HasSlot(g, s) /\ g.slots[s].k = "mod"
IsErrSlot(g, s) == HasSlot(g, s) /\ g.slots[s].k = "err"
IsRedirect(g, s) == s \in DOMAIN g.redirects
SchemeOf(g, s) == IF s \in DOMAIN g.sch THEN g.sch[s] ELSE "file"

(***************************************************************************)
(* resolve(): graph.rs 2733-2762, including the node cap exactly as coded  *)
(***************************************************************************)
RECURSIVE ResolveLoop(_, _, _)
ResolveLoop(g, cur, seen) ==
  IF cur \notin DOMAIN g.redirects THEN cur
  ELSE LET nxt == g.redirects[cur] IN
       IF nxt \in seen THEN cur
       ELSE IF Cardinality(seen \cup {nxt}) >= MaxRedirectNodes THEN nxt
       ELSE ResolveLoop(g, nxt, seen \cup {nxt})
Resolve(g, s) ==
  IF s \notin DOMAIN g.redirects THEN s
  ELSE LET first == g.redirects[s] IN ResolveLoop(g, first, {s, first})

(***************************************************************************)
(* Declarative redirect following: what a walk rooted at s reaches first.  *)
(* Slots are consulted before redirects (1967-2008); unbounded, stops on a *)
(* cycle. Fuel makes termination a value rather than a stack overflow.     *)
(***************************************************************************)
RECURSIVE FinalFrom(_, _, _)
FinalFrom(g, cur, seen) ==
  IF HasSlot(g, cur) \/ cur \notin DOMAIN g.redirects THEN cur
  ELSE IF g.redirects[cur] \in seen THEN cur
  ELSE FinalFrom(g, g.redirects[cur], seen \cup {g.redirects[cur]})
Final(g, s) == FinalFrom(g, s, {s})
\* tagged result of what is reached
Reached(g, s) ==
  LET f == Final(g, s) IN
  IF IsMod(g, f) THEN [t |-> "mod", s |-> f]
  ELSE IF IsErrSlot(g, f) THEN [t |-> "err", s |-> f, ek |-> g.slots[f].ek]
  ELSE [t |-> "none"]

\* chain facts used by known-finding signatures
RECURSIVE ChainLen(_, _, _)
ChainLen(g, cur, seen) ==      \* number of redirect hops until a non-source or a repeat
  IF cur \notin DOMAIN g.redirects \/ g.redirects[cur] \in seen THEN 0
  ELSE 1 + ChainLen(g, g.redirects[cur], seen \cup {g.redirects[cur]})
RECURSIVE OnCycle(_, _, _)
OnCycle(g, cur, seen) ==       \* following redirects from cur revisits a specifier
  IF cur \notin DOMAIN g.redirects THEN FALSE
  ELSE IF g.redirects[cur] \in seen THEN TRUE
  ELSE OnCycle(g, g.redirects[cur], seen \cup {g.redirects[cur]})
HitsCycle(g, s) == OnCycle(g, s, {s})

(***************************************************************************)
(* Lookups as coded: 2668-2696, 2861-2910                                  *)
(***************************************************************************)
LookupAt(g, r) ==
  IF IsMod(g, r) THEN [t |-> "mod", s |-> r]
  ELSE IF IsErrSlot(g, r) THEN [t |-> "err", s |-> r, ek |-> g.slots[r].ek]
  ELSE [t |-> "none"]
TryGet(g, s) == LookupAt(g, Resolve(g, s))
Get(g, s) == LET r == TryGet(g, s) IN IF r.t = "mod" THEN r ELSE [t |-> "none"]
Contains(g, s) == TryGet(g, s).t = "mod"
TryGetPreferTypes(g, s) ==
  LET r == TryGet(g, s) IN
  IF r.t # "mod" THEN r
  ELSE LET sl == g.slots[r.s] IN
       IF sl.cls = "js" /\ IsOk(sl.tdep) THEN TryGet(g, sl.tdep.ok) ELSE r
\* specifiers(): slots, then redirect sources whose resolved target has a slot
\* (after the fix of F3 the target is followed with resolve(); before, the raw target was looked up)
SpecifiersCoded(g) ==
  { <<s, LookupAt(g, s)>> : s \in { x \in DOMAIN g.slots : g.slots[x].k # "pending" } }
  \cup { <<s, LookupAt(g, Resolve(g, g.redirects[s]))>> :
          s \in { x \in DOMAIN g.redirects : HasSlot(g, Resolve(g, g.redirects[x])) /\ g.slots[Resolve(g, g.redirects[x])].k # "pending" } }
\* declarative listing: every slot, and every redirect source with what its chain reaches
SpecifiersDecl(g) ==
  { <<s, LookupAt(g, s)>> : s \in { x \in DOMAIN g.slots : g.slots[x].k # "pending" } }
  \cup { <<s, Reached(g, s)>> : s \in { x \in DOMAIN g.redirects : ~HasSlot(g, x) /\ Reached(g, x).t # "none" } }

DepByText(deps, text) ==
  LET idx == { i \in DOMAIN deps : deps[i].text = text } IN
  IF idx = {} THEN <<>> ELSE <<deps[CHOOSE i \in idx : TRUE]>>

\* resolve_dependency_from_dep 2818-2855, as coded
ResolveDepCoded(g, dep, preferTypes) ==
  LET first == IF preferTypes THEN dep.type ELSE dep.code
      second == IF preferTypes THEN dep.code ELSE dep.type
      un == IF IsOk(first) THEN first ELSE IF IsOk(second) THEN second ELSE NONE
  IN IF ~IsOk(un) THEN NONE
     ELSE LET r == Resolve(g, un.ok) IN
       IF ~IsMod(g, r) THEN NONE
       ELSE IF preferTypes /\ g.slots[r].cls = "js" /\ IsOk(g.slots[r].tdep)
            THEN LET r2 == Resolve(g, g.slots[r].tdep.ok) IN IF IsMod(g, r2) THEN Ok(r2) ELSE Ok(r)
       ELSE Ok(r)
\* declarative: the types module when one is loaded, the code module otherwise
ReachMod(g, t) == LET f == Final(g, t) IN IF IsMod(g, f) THEN Ok(f) ELSE NONE
SelfTypesOf(g, m) ==   \* a loaded types dependency of a loaded JS module, else the module itself
  IF g.slots[m].cls = "js" /\ IsOk(g.slots[m].tdep) /\ IsOk(ReachMod(g, g.slots[m].tdep.ok))
  THEN ReachMod(g, g.slots[m].tdep.ok) ELSE Ok(m)
ResolveDepDecl(g, dep, preferTypes) ==
  LET tc == IF IsOk(dep.type) THEN ReachMod(g, dep.type.ok) ELSE NONE
      cc == IF IsOk(dep.code) THEN ReachMod(g, dep.code.ok) ELSE NONE
  IN IF preferTypes
     THEN IF IsOk(tc) THEN SelfTypesOf(g, tc.ok)
          ELSE IF IsOk(cc) THEN SelfTypesOf(g, cc.ok) ELSE NONE
     ELSE IF IsOk(dep.code) THEN cc ELSE tc
\* resolve_dependency(): 2773-2794 (referrer resolved; module deps or configured imports)
DepsForReferrer(g, ref) ==
  LET r == Resolve(g, ref) IN
  IF IsMod(g, r) THEN g.slots[r].deps
  ELSE LET idx == { i \in DOMAIN g.imports : g.imports[i].ref = r } IN
       IF idx = {} THEN <<>> ELSE g.imports[CHOOSE i \in idx : TRUE].deps

(***************************************************************************)
(* The walk iterator as coded: 1818-2016                                   *)
(* opts = [kind, dynamic, checkJs, fast]                                   *)
(***************************************************************************)
Checkable(sl, opts) == sl.chk = "yes" \/ (sl.chk = "js" /\ opts.checkJs)
WalkDeps(sl, opts) ==     \* 1948-1954
  IF IncludeTypes(opts.kind) /\ Checkable(sl, opts) /\ opts.fast /\ "fdeps" \in DOMAIN sl
  THEN sl.fdeps ELSE sl.deps

\* analyze_module_deps 1917-1939: deps in reverse, code then type, each push_front
RECURSIVE PushDeps(_, _, _, _, _)
PushDeps(deps, i, opts, seen, visiting) ==
  IF i = 0 THEN <<seen, visiting>>
  ELSE LET d == deps[i]
           follow == ~d.dyn \/ opts.dynamic
           c == IF follow /\ IsOk(d.code) /\ d.code.ok \notin seen THEN <<d.code.ok>> ELSE <<>>
           seen1 == seen \cup (IF follow /\ IsOk(d.code) THEN {d.code.ok} ELSE {})
           t == IF follow /\ IncludeTypes(opts.kind) /\ IsOk(d.type) /\ d.type.ok \notin seen1
                THEN <<d.type.ok>> ELSE <<>>
           seen2 == seen1 \cup (IF follow /\ IncludeTypes(opts.kind) /\ IsOk(d.type)
                                THEN {d.type.ok} ELSE {})
       IN PushDeps(deps, i - 1, opts, seen2, t \o c \o visiting)

\* constructor 1824-1846: roots push_back; configured imports push_front (forward order, all deps)
RECURSIVE PushRoots(_, _, _, _)
PushRoots(roots, i, seen, visiting) ==
  IF i > Len(roots) THEN <<seen, visiting>>
  ELSE IF roots[i] \in seen THEN PushRoots(roots, i + 1, seen, visiting)
  ELSE PushRoots(roots, i + 1, seen \cup {roots[i]}, Append(visiting, roots[i]))
AllImportDeps(g) ==
  LET RECURSIVE Cat(_)
      Cat(i) == IF i > Len(g.imports) THEN <<>> ELSE g.imports[i].deps \o Cat(i + 1)
  IN Cat(1)
RECURSIVE PushImports(_, _, _, _, _)
PushImports(deps, i, opts, seen, visiting) ==
  IF i > Len(deps) THEN <<seen, visiting>>
  ELSE LET d == deps[i]
           c == IF IsOk(d.code) /\ d.code.ok \notin seen THEN <<d.code.ok>> ELSE <<>>
           seen1 == seen \cup (IF IsOk(d.code) THEN {d.code.ok} ELSE {})
           t == IF IncludeTypes(opts.kind) /\ IsOk(d.type) /\ d.type.ok \notin seen1 THEN <<d.type.ok>> ELSE <<>>
           seen2 == seen1 \cup (IF IncludeTypes(opts.kind) /\ IsOk(d.type) THEN {d.type.ok} ELSE {})
       IN PushImports(deps, i + 1, opts, seen2, t \o c \o visiting)

\* next() 1945-2015. prev: <<>> or <<spec, "mod"|"err"|"redirect">>; skip: specs whose deps the caller skips
\* out: sequence of <<spec, kind>>
RECURSIVE WalkLoop(_, _, _, _, _, _, _)
WalkLoop(g, opts, skip, seen, visiting, prev, out) ==
  LET afterPrev ==
        IF prev = <<>> THEN <<seen, visiting>>
        ELSE IF prev[2] = "mod"
             THEN IF prev[1] \in skip THEN <<seen, visiting>>
                  ELSE LET ds == WalkDeps(g.slots[prev[1]], opts) IN PushDeps(ds, Len(ds), opts, seen, visiting)
        ELSE IF prev[2] = "redirect"
             THEN IF g.redirects[prev[1]] \in seen THEN <<seen, visiting>>
                  ELSE <<seen \cup {g.redirects[prev[1]]}, <<g.redirects[prev[1]]>> \o visiting>>
        ELSE <<seen, visiting>>
      seen1 == afterPrev[1]
      vis1 == afterPrev[2]
  IN IF vis1 = <<>> THEN out
     ELSE LET s == Head(vis1)  rest == Tail(vis1) IN
       IF HasSlot(g, s) THEN
          IF g.slots[s].k = "pending" THEN WalkLoop(g, opts, skip, seen1, rest, <<>>, out)
          ELSE IF g.slots[s].k = "err" THEN WalkLoop(g, opts, skip, seen1, rest, <<s, "err">>, Append(out, <<s, "err">>))
          ELSE
            LET sl == g.slots[s]
                isJs == sl.cls = "js"
                hasT == isJs /\ IncludeTypes(opts.kind) /\ IsOk(sl.tdep)
                seen2 == IF hasT THEN seen1 \cup {sl.tdep.ok} ELSE seen1
                vis2 == IF hasT /\ sl.tdep.ok \notin seen1 THEN <<sl.tdep.ok>> \o rest ELSE rest
                skipIt == isJs /\ opts.kind = "types" /\ (hasT \/ ~Checkable(sl, opts))
            IN IF skipIt THEN WalkLoop(g, opts, skip, seen2, vis2, <<>>, out)
               ELSE WalkLoop(g, opts, skip, seen2, vis2, <<s, "mod">>, Append(out, <<s, "mod">>))
       ELSE IF s \in DOMAIN g.redirects
            THEN WalkLoop(g, opts, skip, seen1, rest, <<s, "redirect">>, Append(out, <<s, "redirect">>))
       ELSE WalkLoop(g, opts, skip, seen1, rest, <<>>, out)

Walk(g, roots, opts, skip) ==
  LET a == PushRoots(roots, 1, {}, <<>>)
      b == PushImports(AllImportDeps(g), 1, opts, a[1], a[2])
  IN WalkLoop(g, opts, skip, b[1], b[2], <<>>, <<>>)

(***************************************************************************)
(* Declarative walk set (C15): closure of "what the options say to follow" *)
(***************************************************************************)
SkippedInTypes(sl, opts) ==     \* untyped module replaced by its types dependency / unchecked JS
  sl.cls = "js" /\ opts.kind = "types"
  /\ ((IncludeTypes(opts.kind) /\ IsOk(sl.tdep)) \/ ~Checkable(sl, opts))
DepTargets(deps, opts) ==
  UNION { (IF IsOk(deps[i].code) THEN {deps[i].code.ok} ELSE {}) \cup
          (IF IncludeTypes(opts.kind) /\ IsOk(deps[i].type) THEN {deps[i].type.ok} ELSE {})
          : i \in { j \in DOMAIN deps : ~deps[j].dyn \/ opts.dynamic } }
Edges(g, s, opts, skip) ==
  IF HasSlot(g, s) THEN
    IF g.slots[s].k # "mod" THEN {}
    ELSE LET sl == g.slots[s]
             hasT == sl.cls = "js" /\ IncludeTypes(opts.kind) /\ IsOk(sl.tdep)
             depEdges == IF SkippedInTypes(sl, opts) \/ s \in skip THEN {}
                         ELSE DepTargets(WalkDeps(sl, opts), opts)
         IN (IF hasT THEN {sl.tdep.ok} ELSE {}) \cup depEdges
  ELSE IF s \in DOMAIN g.redirects THEN {g.redirects[s]} ELSE {}
ImportTargets(g, opts) ==
  LET ds == AllImportDeps(g) IN
  UNION { (IF IsOk(ds[i].code) THEN {ds[i].code.ok} ELSE {}) \cup
          (IF IncludeTypes(opts.kind) /\ IsOk(ds[i].type) THEN {ds[i].type.ok} ELSE {}) : i \in DOMAIN ds }
RECURSIVE Closure(_, _, _, _)
Closure(g, S, opts, skip) ==
  LET T == S \cup UNION { Edges(g, s, opts, skip) : s \in S } IN
  IF T = S THEN S ELSE Closure(g, T, opts, skip)
Visited(g, roots, opts, skip) == Closure(g, SeqToSet(roots) \cup ImportTargets(g, opts), opts, skip)
EntryKind(g, s, opts) ==     \* what, if anything, the walk yields for a visited specifier
  IF HasSlot(g, s) THEN
     IF g.slots[s].k = "err" THEN "err"
     ELSE IF g.slots[s].k = "mod" /\ ~SkippedInTypes(g.slots[s], opts) THEN "mod"
     ELSE "-"
  ELSE IF s \in DOMAIN g.redirects THEN "redirect" ELSE "-"
WalkSet(g, roots, opts, skip) ==
  { <<s, EntryKind(g, s, opts)>> : s \in { x \in Visited(g, roots, opts, skip) : EntryKind(g, x, opts) # "-" } }

(***************************************************************************)
(* Error iterator as coded: 2031-2186.  An error is a record               *)
(*   [c |-> "mod", ek, s]                    error entry of specifier s    *)
(*   [c |-> "res", ek, s, ref]               failed/forbidden resolution   *)
(*                                           in module ref (s = target or  *)
(*                                           specifier text)               *)
(***************************************************************************)
CheckRes(g, m, text, res, lf, dyn, opts) ==       \* check_resolution 2031-2102; returns a set (0 or 1)
  IF IsOk(res) THEN
    LET t == res.ok IN
    IF SchemeOf(g, m) = "https" /\ SchemeOf(g, t) = "http" THEN {[c |-> "res", ek |-> "downgrade", s |-> t, ref |-> m]}
    ELSE IF SchemeOf(g, m) \in {"https", "http"} /\ SchemeOf(g, t) = "file" /\ lf
         THEN {[c |-> "res", ek |-> "localimport", s |-> t, ref |-> m]}
    ELSE IF opts.dynamic THEN
         LET r == Resolve(g, t) IN
         IF IsErrSlot(g, r) /\ g.slots[r].ek = "missing"
         THEN {[c |-> "mod", ek |-> (IF dyn THEN "missingdyn" ELSE "missing"), s |-> r]}
         ELSE {}
    ELSE {}
  ELSE IF IsErrR(res) THEN {[c |-> "res", ek |-> res.ek, s |-> text, ref |-> m]}
  ELSE {}

ErrorsOfEntry(g, e, opts) ==    \* 2114-2178 for one yielded entry e = <<s, kind>>
  LET s == e[1] IN
  IF e[2] = "err" THEN
     IF opts.dynamic /\ g.slots[s].ek = "missing" THEN {} ELSE {[c |-> "mod", ek |-> g.slots[s].ek, s |-> s]}
  ELSE IF e[2] = "mod" THEN
     LET sl == g.slots[s]
         tErr == IF IncludeTypes(opts.kind) /\ sl.cls = "js" /\ ~IsNone(sl.tdep)
                 THEN CheckRes(g, s, sl.tdepText, sl.tdep, FALSE, FALSE, opts) ELSE {}
         checkTypes == IncludeTypes(opts.kind) /\ Checkable(sl, opts)
         ds == WalkDeps(sl, opts)
     IN tErr \cup UNION { CheckRes(g, s, ds[i].text, ds[i].code, ds[i].lf, ds[i].dyn, opts)
                          \cup (IF checkTypes THEN CheckRes(g, s, ds[i].text, ds[i].type, ds[i].lf, ds[i].dyn, opts) ELSE {})
                          : i \in { j \in DOMAIN ds : opts.dynamic \/ ~ds[j].dyn } }
  ELSE {}
ErrorsCoded(g, roots, opts) ==
  LET w == Walk(g, roots, opts, {}) IN UNION { ErrorsOfEntry(g, w[i], opts) : i \in DOMAIN w }
ValidateCoded(g, roots, opts) == ErrorsCoded(g, roots, opts) = {}
ValidOpts == [kind |-> "code", dynamic |-> FALSE, checkJs |-> TRUE, fast |-> FALSE]
ValidCoded(g) == ValidateCoded(g, g.roots, ValidOpts)

(***************************************************************************)
(* Declarative failures (C02): every failure reachable along followed      *)
(* edges -- error entries of whatever kind, failed resolutions, HTTPS->HTTP*)
(* and remote->literal file: imports on followed edges.                    *)
(***************************************************************************)
PolicyOrResErr(g, m, text, res, lf) ==
  IF IsOk(res) THEN
    IF SchemeOf(g, m) = "https" /\ SchemeOf(g, res.ok) = "http" THEN {[c |-> "res", ek |-> "downgrade", s |-> res.ok, ref |-> m]}
    ELSE IF SchemeOf(g, m) \in {"https", "http"} /\ SchemeOf(g, res.ok) = "file" /\ lf
         THEN {[c |-> "res", ek |-> "localimport", s |-> res.ok, ref |-> m]}
    ELSE {}
  ELSE IF IsErrR(res) THEN {[c |-> "res", ek |-> res.ek, s |-> text, ref |-> m]} ELSE {}
FailuresOfEntry(g, e, opts) ==
  LET s == e[1] IN
  IF e[2] = "err" THEN {[c |-> "mod", ek |-> g.slots[s].ek, s |-> s]}
  ELSE IF e[2] = "mod" THEN
     LET sl == g.slots[s]
         tErr == IF IncludeTypes(opts.kind) /\ sl.cls = "js" /\ ~IsNone(sl.tdep)
                 THEN PolicyOrResErr(g, s, sl.tdepText, sl.tdep, FALSE) ELSE {}
         checkTypes == IncludeTypes(opts.kind) /\ Checkable(sl, opts)
         ds == WalkDeps(sl, opts)
     IN tErr \cup UNION { PolicyOrResErr(g, s, ds[i].text, ds[i].code, ds[i].lf)
                          \cup (IF checkTypes THEN PolicyOrResErr(g, s, ds[i].text, ds[i].type, ds[i].lf) ELSE {})
                          : i \in { j \in DOMAIN ds : opts.dynamic \/ ~ds[j].dyn } }
  ELSE {}
ReachableFailures(g, roots, opts) ==
  UNION { FailuresOfEntry(g, e, opts) : e \in WalkSet(g, roots, opts, {}) }
\* the "same" failure irrespective of how a missing module is labelled (missing / missingdyn)
NormErr(e) == IF e.c = "mod" /\ e.ek = "missingdyn" THEN [e EXCEPT !.ek = "missing"] ELSE e
\* C02: verdict and soundness of the reported error
C02_Verdict(g, roots, opts, observedOk) == observedOk <=> (ReachableFailures(g, roots, opts) = {})
\* known finding F4 / F4': with follow_dynamic a reachable Missing entry is reported by nothing
\* (the entry itself is ignored "to be reported in place" but no followed, checked edge of a
\* yielded module points at it).  Model-based signature: the failures the coded iterator does
\* not report are all Missing entries under follow_dynamic.
F4Sig(g, roots, opts) ==
  /\ opts.dynamic
  /\ \A f \in ReachableFailures(g, roots, opts) \ { NormErr(e) : e \in ErrorsCoded(g, roots, opts) } :
        f.c = "mod" /\ f.ek = "missing"

(***************************************************************************)
(* prune_types as coded: 2428-2509                                         *)
(***************************************************************************)
PruneDeps(deps) == [i \in DOMAIN deps |-> [deps[i] EXCEPT !.type = NONE]]
PruneSlot(sl) ==
  IF sl.k # "mod" THEN sl
  ELSE IF sl.cls = "js" THEN [x \in (DOMAIN sl) \ {"fdeps"} |->
          IF x = "deps" THEN PruneDeps(sl.deps) ELSE IF x = "tdep" THEN NONE ELSE IF x = "tdepText" THEN "" ELSE sl[x]]
  ELSE IF sl.cls = "wasm" THEN [sl EXCEPT !.deps = PruneDeps(sl.deps)]
  ELSE sl
PruneEdges(g, s) ==       \* worklist step: redirect first, then module deps (code; type already cleared)
  IF s \in DOMAIN g.redirects THEN {g.redirects[s]}
  ELSE IF IsMod(g, s) /\ g.slots[s].cls \in {"js", "wasm"}
       THEN { g.slots[s].deps[i].code.ok : i \in { j \in DOMAIN g.slots[s].deps : IsOk(g.slots[s].deps[j].code) } }
       ELSE {}
RECURSIVE PruneSeen(_, _)
PruneSeen(g, S) == LET T == S \cup UNION { PruneEdges(g, s) : s \in S } IN IF T = S THEN S ELSE PruneSeen(g, T)
Prune(g) ==
  IF ~IncludeTypes(g.kind) THEN g
  ELSE LET seen == PruneSeen(g, SeqToSet(g.roots)) IN
       [g EXCEPT !.kind = "code", !.imports = <<>>,
                 !.slots = [s \in (DOMAIN g.slots) \cap seen |-> PruneSlot(g.slots[s])],
                 !.redirects = Restrict(g.redirects, seen)]

(***************************************************************************)
(* segment as coded: 2381-2425                                             *)
(***************************************************************************)
SegmentOpts(g) == [kind |-> g.kind, dynamic |-> TRUE, checkJs |-> TRUE, fast |-> FALSE]
Segment(g, roots) ==
  IF SeqToSet(roots) \subseteq SeqToSet(g.roots) THEN g
  ELSE LET w == Walk(g, roots, SegmentOpts(g), {})
           ss == { w[i][1] : i \in { j \in DOMAIN w : w[j][2] \in {"mod", "err"} } }
           rs == { w[i][1] : i \in { j \in DOMAIN w : w[j][2] = "redirect" } }
       IN [g EXCEPT !.roots = roots, !.slots = Restrict(g.slots, ss), !.redirects = Restrict(g.redirects, rs)]

(***************************************************************************)
(* Observational equality used by C17 / C18 / C19                          *)
(***************************************************************************)
SlotObs(sl) ==
  IF sl.k = "mod" THEN [k |-> "mod", cls |-> sl.cls] ELSE IF sl.k = "err" THEN [k |-> "err", ek |-> sl.ek] ELSE [k |-> sl.k]
CodeEdges(sl) ==    \* dependency records with a code resolution; records with neither code nor type are not edges
  IF sl.k = "mod" /\ sl.cls \in {"js", "wasm"}
  THEN { [text |-> sl.deps[i].text, code |-> sl.deps[i].code, dyn |-> sl.deps[i].dyn] :
         i \in { j \in DOMAIN sl.deps : ~IsNone(sl.deps[j].code) } }
  ELSE {}
ObsCode(g) == [ slots |-> [s \in DOMAIN g.slots |-> [o |-> SlotObs(g.slots[s]), e |-> CodeEdges(g.slots[s])]],
                redirects |-> g.redirects ]
NoTypesLeft(g) ==
  /\ g.kind = "code" /\ g.imports = <<>>
  /\ \A s \in DOMAIN g.slots : g.slots[s].k = "mod" /\ g.slots[s].cls \in {"js", "wasm"} =>
        /\ (g.slots[s].cls = "js" => IsNone(g.slots[s].tdep) /\ "fdeps" \notin DOMAIN g.slots[s])
        /\ \A i \in DOMAIN g.slots[s].deps : IsNone(g.slots[s].deps[i].type)
=============================================================================
