"""Registry pipelines: C05 (checksums), C06 (version selection), C07 (jsr specifier mapping and bookkeeping)."""
import os, json, time, shutil
import pipelines as P

MC = os.path.join(P.SPEC, "mc")
T_JSR = os.path.join(P.SPEC, "trace", "T_Jsr.tla")
T_JSR_CFG = os.path.join(P.SPEC, "trace", "T_Jsr.cfg")

KNOWN_TEXT = {
    "F9": "with prefer_cached_jsr_versions the cache-only probe of <version>_meta.json presents no checksum although the lockfile has one (the probed content is discarded)",
    "F18": "a jsr:/npm: requirement that is only imported dynamically is attributed to the first importing package only (dynamic_branches keeps one referrer per specifier)",
}
N_WORLDS = {"quick": 1500, "thorough": 20000}
JSR_CFGS = {"quick": ["jsr_q"], "thorough": ["jsr_q", "jsr_t"]}


def run(prop, tier, seed, replay):
    t0 = time.time()
    work = os.path.join(P.WORKROOT, f"{prop}-{tier}")
    shutil.rmtree(work, ignore_errors=True)
    os.makedirs(work)
    out = P.Outcome(prop)
    instances = []
    fn_calls = fn_cases = 0
    samples = []

    # ---- C06 function level: the whole bounded domain of resolve_version, TLC -> real crate
    if prop == "C06" and not replay:
        cases_path = os.path.join(work, "jsr_cases.ndjson")
        open(cases_path, "w").close()
        for cfgname in JSR_CFGS[tier]:
            r = P.tlc_mc(os.path.join(MC, "MC_Jsr.tla"), os.path.join(MC, cfgname + ".cfg"), work, workers=min(8, P.NCPU),
                         timeout=1500 if tier == "quick" else 10800)
            if r["errors"]:
                raise P.ToolError(f"TLC errors in {cfgname}: {r['errors'][:3]}")
            n = P.extract("REPLAY", r["out"], cases_path, "a")
            os.remove(r["out"])
            r["cases"] = n
            instances.append({k: r[k] for k in ("name", "generated", "distinct", "wall", "cases", "violated")})
            for inv in r["violated"]:
                # the design-level statement (tiers == property statement) failing is a modelling defect
                raise P.ToolError(f"design-level invariant {inv} violated in {cfgname}")
        res_path = os.path.join(work, "jsr_result.json")
        rr = P.sh([P.DGV, "replay-jsr", "--cases", cases_path, "--result", res_path], timeout=3000)
        if rr.returncode != 0:
            raise P.ToolError("dgv replay-jsr failed")
        res = json.load(open(res_path))
        fn_calls, fn_cases = res["calls"], res["cases"]
        for m in res["mismatches"]:
            if m["what"] == "calibration":
                raise P.ToolError(f"requirement table of Jsr.tla disagrees with deno_semver: {m}")
            out.violation(f"resolve_version {m['variant']} req={m['req']}", dict(property=prop, source="replay-jsr", mismatch=m))
        with open(cases_path) as fh:
            first = json.loads(fh.readline())
            samples.append({"registry": first["reg"], "combo": first["combos"][:2]})

    # ---- C03 on URL worlds: every response kind at every position of the TLC-enumerated fault profiles; the replay
    #      compares entries *and referrers* with the model and reports panics / pending entries
    if prop == "C03" and not replay:
        import props_core as PC
        cases_path = os.path.join(work, "cases.ndjson")
        open(cases_path, "w").close()
        profs = [(PC.CORE, "fault_q"), (PC.CORE, "redir_q"), (PC.CORE, "optdyn_q"), (PC.CORE, "optskip_q"), (PC.CORE, "optboth_q"), (PC.CHAIN, "chain_q"), ("MC_Npm.tla", "npm_q"), ("MC_Fin.tla", "fin_q"), ("MC_Imports.tla", "imports_q")] + ([(PC.CORE, "redir_t"), (PC.CHAIN, "chain_t"), ("MC_Npm.tla", "npm_t"), ("MC_Fin.tla", "fin_t")] if tier == "thorough" else [])
        for mod, cfgname in profs:
            r = P.tlc_mc(os.path.join(MC, mod), os.path.join(MC, cfgname + ".cfg"), work, workers=min(8, P.NCPU), timeout=7200)
            if r["errors"]:
                raise P.ToolError(f"TLC errors in {cfgname}: {r['errors'][:3]}")
            n = P.extract("REPLAY", r["out"], cases_path, "a")
            os.remove(r["out"])
            r["cases"] = n
            instances.append({k: r[k] for k in ("name", "generated", "distinct", "wall", "cases", "violated")})
        res_path = os.path.join(work, "core_result.json")
        rr = P.sh([P.DGV, "replay-core", "--cases", cases_path, "--result", res_path, "--threads", str(min(P.NCPU, 16))], timeout=3000)
        if rr.returncode != 0:
            raise P.ToolError("dgv replay-core failed")
        res = json.load(open(res_path))
        fn_cases = res["cases"]
        fn_calls = res["builds"]
        case_lines = P.Lines(cases_path)
        for m in res["mismatches"]:
            if "C03" in m.get("prop", []) or m["what"] == "graph":
                P.absorb_replay_mismatch(out, prop, m, json.loads(case_lines[m["case"]]))
        samples.append({"world": json.loads(case_lines[0])["w"]})

    # ---- graph level: instrumented builds of registry worlds, validated by T_Jsr
    trace_path = os.path.join(work, "trace.ndjson")
    res_path = os.path.join(work, "record.json")
    worlds_path = os.path.join(work, "worlds.ndjson")
    if replay and json.load(open(replay)).get("source") == "replay-core":
        import props_core as PC
        return PC.run_replay_only(prop, json.load(open(replay)), work, out, t0, tier, seed)
    if replay:
        payload = json.load(open(replay))
        if payload.get("source") == "replay-jsr":
            # function-level replay: one registry line
            cp = os.path.join(work, "one.ndjson")
            open(cp, "w").write(json.dumps(payload["case_line"]) + "\n") if "case_line" in payload else None
        with open(worlds_path, "w") as fh:
            fh.write(json.dumps(payload["world"]) + "\n")
        cmd = [P.DGV, "record-jsr", "--worlds", worlds_path, "--trace", trace_path, "--result", res_path]
    else:
        cmd = [P.DGV, "record-jsr", "--n", str(N_WORLDS[tier]), "--seed", str(seed), "--trace", trace_path, "--result", res_path,
               "--dump-worlds", worlds_path]
        if prop in ("C05", "C03"):
            cmd.append("--faults")
    rr = P.sh(cmd, timeout=3000)
    if rr.returncode != 0:
        raise P.ToolError("dgv record-jsr failed")
    res = json.load(open(res_path))
    with open(trace_path) as fh:
        trace_lines = fh.readlines()
    if prop == "C03":
        wl = open(worlds_path).readlines()
        for m in res["mismatches"]:
            out.violation(f"{m['what']} in registry world {m['case']}", dict(property=prop, source="trace-jsr", what=m["what"], detail=m,
                          world=json.loads(wl[m["case"]]) if m["case"] < len(wl) else None))
    with open(worlds_path) as fh:
        world_lines = fh.readlines()
    resets = [(i, json.loads(l)["id"]) for i, l in enumerate(trace_lines) if l.startswith('{"ev":"jsrreset"')]

    def world_of_line(l):
        cur = None
        for i, rid in resets:
            if i + 1 <= l:
                cur = rid
            else:
                break
        if cur is None:
            return None
        idx = int(cur.split("/")[0][4:])
        return json.loads(world_lines[idx]) if idx < len(world_lines) else None

    merged = P.validate_trace(T_JSR, T_JSR_CFG, trace_path, work, reset_prefix='{"ev":"jsrreset"')
    allowed = P.open_ids(prop)
    for m in merged["mismatch"]:
        if m["prop"] != prop:
            continue
        out.violation(f"{m['what']} at trace line {m['l']}", dict(property=prop, source="trace-jsr", what=m["what"], observed=m.get("obs"),
                      expected=m.get("exp"), world=world_of_line(m["l"])))
    for m in merged["known"]:
        if m["prop"] != prop:
            continue
        ids = set(m["id"].split("/"))
        if ids & allowed:
            kid = sorted(ids & allowed)[0]
            out.known.setdefault(kid, KNOWN_TEXT.get(kid, m["what"]))
        else:
            out.violation(f"{m['what']} matches finding {m['id']} which is not open",
                          dict(property=prop, source="trace-jsr", what=m["what"], finding=m["id"], world=world_of_line(m["l"])))
    for s in merged["stopped"]:
        raise P.ToolError(f"trace validation stopped: {s}")

    code = out.finish()
    ev_kinds = {}
    for l in trace_lines:
        k = l[7:l.index('"', 7)]
        ev_kinds[k] = ev_kinds.get(k, 0) + 1
    if world_lines:
        samples.append({"world": json.loads(world_lines[0])})
    for l in trace_lines[1:3]:
        samples.append({"trace_event": json.loads(l)})
    coverage = dict(
        states=max(1, sum(i["distinct"] for i in instances) + merged["events"]),
        transitions=max(1, sum(i["generated"] for i in instances) + merged["events"]),
        traces_validated_against_impl=ev_kinds.get("jsrreset", 0) + fn_cases,
        samples=samples,
        exhaustive=bool(instances),
        resolve_version_calls=fn_calls, registries_enumerated=fn_cases,
        registry_worlds_built=res["cases"], trace_events=len(trace_lines), trace_events_by_kind=ev_kinds,
        known_findings=sorted(out.known), instances=instances,
        explanation="function level: TLC enumerates the bounded domain of resolve_version and checks tiers-as-coded == property statement; every "
                    "combination is replayed into the real function. graph level: seeded random registry worlds are built by the real crate with "
                    "loader/locker/reporter instrumented; every event is validated by TLC against Jsr.tla / T_Jsr.tla",
    )
    P.write_evidence(prop, tier, seed, "model_checking", coverage, time.time() - t0, len(out.violations),
                     assumptions=["deno_semver decides requirement matching (outside the repository); the model's table is calibrated against it on every run",
                                  "the harness loader verifies checksums the way the Loader contract prescribes"])
    if tier == "quick" or code == 0:
        shutil.rmtree(work, ignore_errors=True)
    return code




def run_c04(prop, tier, seed, replay):
    """C04: design level (all interleavings of the small-step builder), exact TLC schedules replayed through gated
    loader futures, random schedules and repetitions on registry worlds; uniqueness of the observation decided by T_Det."""
    import props_core as PC
    t0 = time.time()
    work = os.path.join(P.WORKROOT, f"{prop}-{tier}")
    shutil.rmtree(work, ignore_errors=True)
    os.makedirs(work)
    out = P.Outcome(prop)
    instances = []
    T_DET = os.path.join(P.SPEC, "trace", "T_Det.tla")
    T_DET_CFG = os.path.join(P.SPEC, "trace", "T_Det.cfg")
    traces = []
    runs = 0
    samples = []
    if replay:
        payload = json.load(open(replay))
        cases_path = os.path.join(work, "cases.ndjson")
        if payload.get("case"):
            open(cases_path, "w").write(json.dumps(payload["case"]) + "\n")
            cmds = [[P.DGV, "sched", "--cases", cases_path]]
        else:
            cmds = [[P.DGV, "sched", "--n", str(payload.get("n", 50)), "--seed", str(payload.get("seed", seed))]]
    else:
        steps = os.path.join(MC, "MC_Steps.tla")
        for cfgname, crit in (("steps_q", True), ("steps_live", True), ("steps_emit", False)):
            r = P.tlc_mc(steps, os.path.join(MC, cfgname + ".cfg"), work, workers=min(8, P.NCPU), timeout=3600)
            if r["errors"]:
                raise P.ToolError(f"TLC errors in {cfgname}: {r['errors'][:3]}")
            instances.append({k: r[k] for k in ("name", "generated", "distinct", "wall", "violated")})
            for inv in r["violated"]:
                out.notes.append(f"design-level: {inv} violated in {cfgname}")
            if cfgname == "steps_emit":
                cases_path = os.path.join(work, "cases.ndjson")
                P.extract("REPLAY", r["out"], cases_path)
            os.remove(r["out"])
        nrand = 400 if tier == "quick" else 6000
        cmds = [[P.DGV, "sched", "--cases", cases_path],
                [P.DGV, "sched", "--n", str(nrand), "--seed", str(seed), "--schedules", "6" if tier == "quick" else "12", "--repeat", "4"],
                [P.DGV, "sched", "--n", str(nrand // 2), "--seed", str(seed + 1), "--faults", "--schedules", "6", "--repeat", "2"]]
    for i, c in enumerate(cmds):
        tp = os.path.join(work, f"sched{i}.trace")
        rp = os.path.join(work, f"sched{i}.json")
        rr = P.sh(c + ["--trace", tp, "--result", rp], timeout=3000)
        if rr.returncode != 0:
            raise P.ToolError("dgv sched failed")
        res = json.load(open(rp))
        runs += res["runs"]
        lines = open(tp).readlines()
        worlds = {}
        for ln in lines:
            if ln.startswith('{"ev":"world"'):
                e = json.loads(ln)
                worlds[e["world"]] = e["w"]
        for m in res["mismatches"]:
            out.violation(f"{m['what']} in {m['world']}", dict(property=prop, source="sched", detail=m, world=worlds.get(m["world"]),
                          case=None, seed=seed, n=0))
        merged = P.validate_trace(T_DET, T_DET_CFG, tp, work, reset_prefix='{"ev":"world"')
        for m in merged["mismatch"]:
            # find the world of that line
            wid = None
            for ln in lines[:m["l"]][::-1]:
                if ln.startswith('{"ev":"world"'):
                    wid = json.loads(ln)["world"]
                    break
            out.violation(f"{m['what']} at trace line {m['l']}", dict(property=prop, source="sched-trace", what=m["what"], observed=m.get("obs"),
                          expected=m.get("exp"), world=worlds.get(wid), case=None))
        out.drift.extend(merged["drift"])
        for st in merged["stopped"]:
            raise P.ToolError(f"trace validation stopped: {st}")
        if lines:
            samples.append({"trace_event": json.loads(lines[1]) if len(lines) > 1 else json.loads(lines[0])})
    code = out.finish()
    coverage = dict(states=max(1, sum(i["distinct"] for i in instances)), transitions=max(1, sum(i["generated"] for i in instances)),
                    traces_validated_against_impl=runs, samples=samples or [{"note": "replay"}], exhaustive=False,
                    design_notes=out.notes, instances=instances, spec_drift=len(out.drift),
                    explanation="design level: TLC explores every interleaving of Land/Consume/EnterDyn/Finish for the bounded URL worlds and checks the terminal graph equals the "
                                "in-order run, deadlock freedom and termination under fairness; implementation level: every TLC-generated schedule is replayed through gated "
                                "loader futures, seeded random schedules and repetitions run on registry worlds; T_Det checks the terminal observation is unique per world")
    P.write_evidence(prop, tier, seed, "model_checking", coverage, time.time() - t0, len(out.violations),
                     assumptions=["schedules of registry worlds are sampled (reverse, in-order, random), not enumerated"])
    if tier == "quick" or code == 0:
        shutil.rmtree(work, ignore_errors=True)
    return code


REGISTRY = {p: run for p in ("C03", "C05", "C06", "C07")}
REGISTRY["C04"] = run_c04


def run_c13(prop, tier, seed, replay):
    t0 = time.time()
    work = os.path.join(P.WORKROOT, f"{prop}-{tier}")
    shutil.rmtree(work, ignore_errors=True)
    os.makedirs(work)
    out = P.Outcome(prop)
    n = 400 if tier == "quick" else 6000
    tp = os.path.join(work, "info.trace")
    rp = os.path.join(work, "info.json")
    if replay:
        payload = json.load(open(replay))
        seed = payload.get("seed", seed)
        n = payload.get("n", n)
    rr = P.sh([P.DGV, "info", "--n", str(n), "--seed", str(seed), "--corpus", "/repo/tests/specs", "--trace", tp, "--result", rp], timeout=3000)
    if rr.returncode != 0:
        raise P.ToolError("dgv info failed")
    res = json.load(open(rp))
    for m in res["mismatches"]:
        out.violation(f"{m['what']}", dict(property=prop, source="info", detail=m, seed=seed, n=n))
    merged = P.validate_trace(os.path.join(P.SPEC, "trace", "T_Info.tla"), os.path.join(P.SPEC, "trace", "T_Info.cfg"), tp, work,
                              reset_prefix='{"ev":"variants"')
    lines = open(tp).readlines()
    for m in merged["mismatch"]:
        e = json.loads(lines[m["l"] - 1])
        out.violation(f"{m['what']} in {e['world']}", dict(property=prop, source="info-trace", what=m["what"], observed=m.get("obs"), world=e["w"], seed=seed, n=n))
    for st in merged["stopped"]:
        raise P.ToolError(f"trace validation stopped: {st}")
    code = out.finish()
    first = json.loads(lines[0]) if lines else {}
    coverage = dict(states=max(1, merged["events"]), transitions=max(1, merged["events"]),
                    traces_validated_against_impl=len(lines) * 21,
                    samples=[{"world": first.get("w")}, {"variant": (first.get("variants") or [None])[0]}],
                    roundtrips=res["roundtrips"], nontrivial_module_infos=res["nontrivial_infos"], worlds=res["worlds"], variants_per_world=21,
                    concrete_clauses={"serde round trip of ModuleInfo (generated + corpus sources)": res["roundtrips"]},
                    explanation="each seeded one-package registry world (mixed media types, every import form, @deno-types pragmas, self types, JSDoc) is built 21 ways: "
                                "manifest without module information / with moduleGraph2 / with moduleGraph1, nothing / everything / a random subset cached, three graph kinds; "
                                "TLC checks on the projected graphs that all variants of a kind coincide (entries, every dependency field, redirects, errors with referrers). "
                                "The serde round trip is an encode/decode identity evaluated by the harness on every module source (see DESIGN section 8)")
    P.write_evidence(prop, tier, seed, "model_checking", coverage, time.time() - t0, len(out.violations),
                     assumptions=["embedded module information is produced by the crate's own analyser from the same sources (as the property requires)"])
    if tier == "quick" or code == 0:
        shutil.rmtree(work, ignore_errors=True)
    return code


REGISTRY["C13"] = run_c13
