"""Pipelines behind ./check: TLC model checking -> replay into the real crate -> trace validation."""
import sys, os, json, subprocess, time, fcntl, hashlib, shutil, re, glob
from concurrent.futures import ThreadPoolExecutor

VERIF = os.path.dirname(os.path.dirname(os.path.abspath(__file__)))
SPEC = os.path.join(VERIF, "spec")
WORKROOT = os.path.join(VERIF, ".work")
HARNESS = os.path.join(VERIF, "harness")
DGV = os.path.join(HARNESS, "target", "release", "dgv")
TLC = os.path.join(VERIF, "tools", "tlc.sh")
NCPU = os.cpu_count() or 8


class ToolError(Exception):
    pass


def log(*a):
    print(*a, file=sys.stderr, flush=True)


def sh(cmd, timeout=None, env=None, cwd=None, stdout=None):
    e = dict(os.environ)
    if env:
        e.update(env)
    return subprocess.run(cmd, timeout=timeout, env=e, cwd=cwd, stdout=stdout, stderr=subprocess.STDOUT)


def ensure_harness():
    """(Re)build the harness against /repo's current working tree; serialised by a lock."""
    os.makedirs(WORKROOT, exist_ok=True)
    with open(os.path.join(WORKROOT, "build.lock"), "w") as lk:
        fcntl.flock(lk, fcntl.LOCK_EX)
        t0 = time.time()
        logp = os.path.join(WORKROOT, "build.log")
        with open(logp, "w") as lf:
            r = sh(["cargo", "build", "--release", "--offline"], cwd=HARNESS, stdout=lf,
                   env={"CARGO_NET_OFFLINE": "true"}, timeout=3000)
        if r.returncode != 0:
            log(open(logp).read()[-4000:])
            raise ToolError("harness build failed (see .work/build.log)")
        log(f"[build] harness ok in {time.time()-t0:.0f}s")
    return DGV


# ----------------------------------------------------------------------------- TLC
def tlc_mc(module, cfg, workdir, workers=8, heap="8g", timeout=1800, extra=None, env=None):
    """Run a model-checking instance. Returns dict(out, generated, distinct, wall, errors, violated)."""
    os.makedirs(workdir, exist_ok=True)
    name = os.path.splitext(os.path.basename(cfg))[0]
    out = os.path.join(workdir, f"{name}.out")
    meta = os.path.join(workdir, f"{name}.meta")
    cmd = [TLC, heap, "-workers", str(workers), "-metadir", meta, "-cleanup", "-noGenerateSpecTE",
           "-config", cfg] + (extra or []) + [module]
    t0 = time.time()
    with open(out, "w") as f:
        try:
            r = sh(cmd, timeout=timeout, stdout=f, cwd=workdir, env=env)
        except subprocess.TimeoutExpired:
            raise ToolError(f"TLC timeout on {name}")
    wall = time.time() - t0
    shutil.rmtree(meta, ignore_errors=True)
    gen = dist = 0
    errors = []
    violated = []
    with open(out, errors="replace") as f:
        for line in f:
            if line.startswith('<<"'):
                continue
            m = re.match(r"(\d+) states generated, (\d+) distinct states found", line)
            if m:
                gen, dist = int(m.group(1)), int(m.group(2))
            m = re.match(r"Error: Invariant (\S+) is violated", line)
            if m:
                violated.append(m.group(1))
            elif line.startswith("Error:") and "is violated" not in line and "The behavior up to" not in line \
                    and "The error occurred" not in line:
                errors.append(line.strip())
    if r.returncode not in (0, 12, 13) and not violated:
        errors.append(f"tlc exit {r.returncode}")
    return dict(name=name, out=out, generated=gen, distinct=dist, wall=round(wall, 1), errors=errors, violated=violated)


def extract(tag, src, dst, mode="w"):
    prefix = '<<"%s", ' % tag
    n = 0
    with open(src, errors="replace") as f, open(dst, mode) as o:
        for line in f:
            if line.startswith(prefix):
                lit = line.rstrip("\n")[len(prefix):-2]
                o.write(json.loads(lit))
                o.write("\n")
                n += 1
    return n


def tagged(src, tag):
    prefix = '<<"%s", ' % tag
    res = []
    with open(src, errors="replace") as f:
        for line in f:
            if line.startswith(prefix):
                res.append(json.loads(json.loads(line.rstrip("\n")[len(prefix):-2])))
    return res


class Lines:
    """Random access to the lines of a (possibly multi-gigabyte) ndjson file without holding it in memory."""

    def __init__(self, path):
        self.path = path
        import array
        self.off = array.array("q")
        pos = 0
        with open(path, "rb") as f:
            for l in f:
                self.off.append(pos)
                pos += len(l)
        self.f = open(path, "rb")

    def __len__(self):
        return len(self.off)

    def __bool__(self):
        return len(self.off) > 0

    def __getitem__(self, i):
        if i < 0:
            i += len(self.off)
        self.f.seek(self.off[i])
        return self.f.readline().decode()


def shard_trace(trace, nshards, workdir, reset_prefix='{"ev":"reset"'):
    """Split an ndjson trace at `reset` boundaries into <= nshards files; returns [(path, first_line_no)]."""
    with open(trace) as f:
        lines = f.readlines()
    if not lines:
        return []
    starts = [i for i, l in enumerate(lines) if l.startswith(reset_prefix)]
    if not starts or starts[0] != 0:
        starts = [0] + starts
    per = max(1, len(lines) // nshards)
    cuts = [0]
    for s in starts:
        if s - cuts[-1] >= per and len(cuts) < nshards:
            cuts.append(s)
    cuts.append(len(lines))
    shards = []
    for i in range(len(cuts) - 1):
        p = os.path.join(workdir, f"shard{i}.ndjson")
        with open(p, "w") as o:
            o.writelines(lines[cuts[i]:cuts[i + 1]])
        shards.append((p, cuts[i]))
    return shards


def tlc_trace(spec, cfg, tracefile, workdir, idx, timeout=3000):
    out = os.path.join(workdir, f"trace{idx}.out")
    meta = os.path.join(workdir, f"trace{idx}.meta")
    cmd = [TLC, "3g", "-workers", "1", "-metadir", meta, "-cleanup", "-noGenerateSpecTE", "-config", cfg, spec]
    with open(out, "w") as f:
        try:
            r = sh(cmd, timeout=timeout, stdout=f, cwd=workdir,
                   env={"TRACEFILE": tracefile, "TLC_JAVA_OPTS": "-Dtlc2.tool.queue.IStateQueue=StateDeque"})
        except subprocess.TimeoutExpired:
            raise ToolError("trace validation timeout")
    shutil.rmtree(meta, ignore_errors=True)
    res = dict(mismatch=tagged(out, "MISMATCH"), known=tagged(out, "KNOWN"), drift=tagged(out, "DRIFT"),
               accepted=False, events=0, out=out)
    txt = open(out, errors="replace").read()
    m = re.search(r'<<"ACCEPTED", (\d+)>>', txt)
    if m:
        res["accepted"] = True
        res["events"] = int(m.group(1))
    else:
        m = re.search(r'<<"STOPPED_AT", (\d+), (\d+)>>', txt)
        res["stopped_at"] = int(m.group(1)) if m else -1
        res["error"] = [l for l in txt.splitlines() if l.startswith("Error:")][:3]
    return res


def validate_trace(spec, cfg, trace, workdir, nshards=None, reset_prefix='{"ev":"reset"'):
    """Shard and validate; returns merged result with global line numbers."""
    nshards = nshards or max(1, min(NCPU - 2, 12))
    shards = shard_trace(trace, nshards, workdir, reset_prefix)
    merged = dict(mismatch=[], known=[], drift=[], events=0, shards=len(shards), stopped=[])
    if not shards:
        return merged
    with ThreadPoolExecutor(max_workers=len(shards)) as ex:
        futs = [ex.submit(tlc_trace, spec, cfg, p, workdir, i) for i, (p, _) in enumerate(shards)]
        for (p, base), fu in zip(shards, futs):
            r = fu.result()
            for k in ("mismatch", "known", "drift"):
                for m in r[k]:
                    m["l"] = m["l"] + base
                    merged[k].append(m)
            if r["accepted"]:
                merged["events"] += r["events"]
            else:
                merged["stopped"].append(dict(shard=p, at=r.get("stopped_at"), error=r.get("error"), out=r["out"]))
    return merged


# ----------------------------------------------------------------------------- findings / evidence
def load_known():
    p = os.path.join(VERIF, "known_findings.json")
    if not os.path.exists(p):
        return []
    return json.load(open(p))


def open_ids(prop):
    """ids of open known findings of a property (family ids as written by the specs)."""
    ids = set()
    for k in load_known():
        if k.get("status") == "open" and prop in k.get("properties", [k.get("property")]):
            ids.add(k["id"])
            for a in k.get("aliases", []):
                ids.add(a)
    return ids


def write_replay(prop, payload):
    d = os.path.join(VERIF, "replays", prop)
    os.makedirs(d, exist_ok=True)
    body = json.dumps(payload, sort_keys=True)
    h = hashlib.sha256(body.encode()).hexdigest()[:12]
    p = os.path.join(d, f"{h}.json")
    with open(p, "w") as f:
        f.write(json.dumps(payload, indent=1))
    return p


def write_evidence(prop, tier, seed, level, coverage, wall, violations, assumptions=None, extra=None):
    d = os.path.join(VERIF, "evidence")
    os.makedirs(d, exist_ok=True)
    ev = dict(property_id=prop, tier=tier, seed=seed, level=level, coverage=coverage,
              assumptions=assumptions or [], wall_s=round(wall, 1), violations=violations)
    if extra:
        ev.update(extra)
    with open(os.path.join(d, f"{prop}.json"), "w") as f:
        json.dump(ev, f, indent=1)


class Outcome:
    def __init__(self, prop):
        self.prop = prop
        self.violations = []   # (what, replay payload)
        self.known = {}        # id -> description (first)
        self.drift = []
        self.notes = []

    def violation(self, what, payload):
        self.violations.append((what, payload))

    def finish(self):
        """print KNOWN-FINDING / VIOLATION lines; return exit code"""
        for kid, what in sorted(self.known.items()):
            print(f"KNOWN-FINDING: property={self.prop} {kid} {what}")
        if self.drift:
            print(f"SPEC-DRIFT: property={self.prop} {len(self.drift)} event(s) differ from the operational model only; first: {json.dumps(self.drift[0])[:200]}")
        seen = set()
        code = 0
        for what, payload in self.violations[:20]:
            p = write_replay(self.prop, payload)
            if p in seen:
                continue
            seen.add(p)
            print(f"VIOLATION property={self.prop} replay={p}")
            log(f"  {what}")
            code = 1
        return code


F17_TEXT = ("a build never terminates: an explicit redirect to a specifier that the loader answers under another final specifier, "
            "imported again from that module (load() follows one redirect level only); the as-coded model diverges on the same world")


def absorb_replay_mismatch(outcome, prop, m, case):
    """Route one replay-core mismatch. Divergence that the as-coded model predicts is finding F17."""
    if m["what"] in ("diverges-as-modelled", "diverges-secondary-build"):
        if "F17" in open_ids(prop):
            outcome.known.setdefault("F17", F17_TEXT)
        else:
            outcome.violation(f"{m['what']} (finding F17 is not open) case {m['case']} kind {m['kind']}",
                              dict(property=prop, source="replay-core", mismatch=m, case=case))
        return
    outcome.violation(f"{m['what']} {m.get('path', '')} case {m['case']} kind {m['kind']}",
                      dict(property=prop, source="replay-core", mismatch=m, case=case))


def absorb_trace(outcome, merged, prop, trace_lines, case_of_line, known_text):
    """Route MISMATCH/KNOWN/DRIFT lines of one property into the outcome."""
    allowed = open_ids(prop)
    for m in merged["mismatch"]:
        if m["prop"] != prop:
            continue
        outcome.violation(f"{m['what']} at trace line {m['l']}", dict(property=prop, source="trace", what=m["what"],
                          observed=m.get("obs"), expected=m.get("exp"), case=case_of_line(m["l"]),
                          event=json.loads(trace_lines[m["l"] - 1]) if 0 < m["l"] <= len(trace_lines) else None))
    for m in merged["known"]:
        if m["prop"] != prop:
            continue
        ids = set(m["id"].split("/"))
        if ids & allowed:
            kid = sorted(ids & allowed)[0]
            outcome.known.setdefault(kid, known_text.get(kid, m["what"]))
        else:
            # the signature of a finding that is not (or no longer) listed as open: a violation
            outcome.violation(f"{m['what']} matches finding {m['id']} which is not open", dict(
                property=prop, source="trace", what=m["what"], finding=m["id"], case=case_of_line(m["l"]),
                event=json.loads(trace_lines[m["l"] - 1]) if 0 < m["l"] <= len(trace_lines) else None))
    outcome.drift.extend(merged["drift"])
    for s in merged["stopped"]:
        raise ToolError(f"trace validation stopped: {s}")


from props_core import REGISTRY as _R1  # noqa: E402
from props_jsr import REGISTRY as _R2  # noqa: E402
REGISTRY = {}
REGISTRY.update(_R1)
REGISTRY.update(_R2)
from props_misc import REGISTRY as _R3  # noqa: E402
REGISTRY.update(_R3)
from props_fc import REGISTRY as _R4  # noqa: E402
REGISTRY.update(_R4)


def main(argv):
    if not argv:
        print(__doc__ or "usage: check <ID> --tier quick|thorough")
        return 2
    if argv[0] == "setup":
        try:
            ensure_harness()
            bad = 0
            for f in sorted(glob.glob(os.path.join(SPEC, "*.tla")) + glob.glob(os.path.join(SPEC, "*", "*.tla"))):
                r = subprocess.run(["java", "-DTLA-Library=" + ":".join([SPEC, SPEC + "/mc", SPEC + "/trace"]), "-cp",
                                    "/opt/veriftools/tla/tla2tools.jar:/opt/veriftools/tla/CommunityModules-deps.jar",
                                    "tla2sany.SANY", f], capture_output=True, text=True, cwd=os.path.dirname(f))
                ok = r.returncode == 0 and "Semantic errors" not in r.stdout and "***Parse Error***" not in r.stdout
                log(("[sany] ok   " if ok else "[sany] FAIL ") + os.path.relpath(f, VERIF))
                bad += 0 if ok else 1
            return 2 if bad else 0
        except ToolError as e:
            log(f"TOOL-ERROR: {e}")
            return 2
    if argv[0] == "selftest":
        import selftest
        try:
            return selftest.run()
        except ToolError as e:
            log(f"TOOL-ERROR: {e}")
            return 2
    prop = argv[0]
    tier = os.environ.get("VERIF_TIER", "quick")
    replay = None
    i = 1
    while i < len(argv):
        if argv[i] == "--tier":
            tier = argv[i + 1]; i += 2
        elif argv[i] == "--replay":
            replay = argv[i + 1]; i += 2
        else:
            i += 1
    if tier not in ("quick", "thorough"):
        log(f"unknown tier {tier}")
        return 2
    seed = int(os.environ.get("VERIF_SEED", "1"))
    if prop not in REGISTRY:
        log(f"unknown property {prop}")
        return 2
    try:
        ensure_harness()
        return REGISTRY[prop](prop, tier, seed, replay)
    except ToolError as e:
        log(f"TOOL-ERROR: {e}")
        return 2
    except subprocess.TimeoutExpired as e:
        log(f"TOOL-ERROR: timeout {e}")
        return 2
