"""Fast check pipelines: C09 (parses, closed under reference), C10 (no logic / no inference), C11 (public API preserved),
C12 (all-or-nothing, cache transparent, deterministic)."""
import os, json, time, shutil
import pipelines as P

MC = os.path.join(P.SPEC, "mc")
T_FC = os.path.join(P.SPEC, "trace", "T_FastCheck.tla")
T_FC_CFG = os.path.join(P.SPEC, "trace", "T_FastCheck.cfg")
KNOWN_TEXT = {
    "F8": "with a warm or stale fast-check cache a package that has a diagnostic does not put the diagnostics on every entrypoint (one entrypoint ends with neither module nor diagnostics); emitted modules never differ",
    "F22": "`export default interface X {}` referenced by name from a public declaration is dropped from the emitted module unless `default` itself is traced, leaving a dangling reference",
    "F19": "an expando property assignment `f.prop = <non-inferable>` on an exported function is silently dropped (no diagnostic)",
}
# which model instances / generators a property uses
USES = {
    "C09": dict(programs=True, random=True, shapes=False),
    "C10": dict(programs=False, random=True, shapes=True),
    "C11": dict(programs=True, random=True, shapes=True),
    "C12": dict(programs=False, random=True, shapes=False),
}


def run(prop, tier, seed, replay):
    t0 = time.time()
    work = os.path.join(P.WORKROOT, f"{prop}-{tier}")
    shutil.rmtree(work, ignore_errors=True)
    os.makedirs(work)
    out = P.Outcome(prop)
    instances = []
    jobs = []   # (label, dgv args)
    uses = USES[prop]
    if replay:
        payload = json.load(open(replay))
        wp = os.path.join(work, "world.ndjson")
        if payload.get("case"):
            open(wp, "w").write(json.dumps(payload["case"]) + "\n")
            jobs.append(("replay", ["--cases", wp]))
        else:
            open(wp, "w").write(json.dumps(payload["world"]) + "\n")
            jobs.append(("replay", ["--worlds", wp]))
    else:
        if uses["programs"]:
            cfgs = ["fc_q", "fc_q3", "fc_q4"] if tier == "quick" else ["fc_q", "fc_q3", "fc_q4", "fc_t"]
            cases = os.path.join(work, "programs.ndjson")
            open(cases, "w").close()
            for c in cfgs:
                r = P.tlc_mc(os.path.join(MC, "MC_FastCheck.tla"), os.path.join(MC, c + ".cfg"), work, workers=min(8, P.NCPU), timeout=10800)
                if r["errors"]:
                    raise P.ToolError(f"TLC errors in {c}: {r['errors'][:3]}")
                one = os.path.join(work, c + ".ndjson")
                n = P.extract("REPLAY", r["out"], one)
                os.remove(r["out"])
                # quick tier: every program is model-checked, a seeded sample of them is replayed into the real crate
                import random
                rnd = random.Random(seed + len(instances))
                cap = 30000 if tier == "quick" else 10 ** 9
                kept = 0
                with open(one) as fi, open(cases, "a") as fo:
                    for ln in fi:
                        if n <= cap or rnd.random() < cap / n:
                            fo.write(ln)
                            kept += 1
                os.remove(one)
                r["cases"] = n
                r["replayed"] = kept
                instances.append({k: r[k] for k in ("name", "generated", "distinct", "wall", "cases", "replayed", "violated")})
                for inv in r["violated"]:
                    out.notes.append(f"design-level: {inv} violated in {c}")
            jobs.append(("programs", ["--cases", cases]))
        if uses["shapes"]:
            cases = os.path.join(work, "shapes.ndjson")
            r = P.tlc_mc(os.path.join(MC, "MC_Transform.tla"), os.path.join(MC, "transform.cfg"), work, workers=4, heap="3g", timeout=1800)
            if r["errors"] or r["violated"]:
                raise P.ToolError(f"MC_Transform: {r['errors'] or r['violated']}")
            n = P.extract("REPLAY", r["out"], cases)
            os.remove(r["out"])
            r["cases"] = n
            instances.append({k: r[k] for k in ("name", "generated", "distinct", "wall", "cases", "violated")})
            jobs.append(("shapes", ["--shapes", cases]))
        if uses["random"]:
            n = {"quick": 600, "thorough": 12000}[tier]
            jobs.append(("random", ["--n", str(n), "--seed", str(seed), "--slow", "0.08"]))
            jobs.append(("random-clean", ["--n", str(n // 2), "--seed", str(seed + 7), "--slow", "0.0"]))
    total_events = 0
    runs = 0
    samples = []
    kinds = {}
    for label, a in jobs:
        tp = os.path.join(work, f"{label}.trace")
        rp = os.path.join(work, f"{label}.json")
        rr = P.sh([P.DGV, "fc", "--trace", tp, "--result", rp] + a, timeout=3000)
        if rr.returncode != 0:
            raise P.ToolError("dgv fc failed")
        res = json.load(open(rp))
        lines = open(tp).readlines()
        total_events += len(lines)

        def world_of(l):
            for ln in lines[:l][::-1]:
                if ln.startswith('{"ev":"fcworld"') or ln.startswith('{"ev":"fcedit"'):
                    e = json.loads(ln)
                    return e["w"]
            return None
        for m in res["mismatches"]:
            if prop in m.get("prop", []):
                out.violation(f"{m['what']} in {m['world']}: {m.get('msg', '')[:120]}", dict(property=prop, source="fc", detail=m, world=None, case=None))
        merged = P.validate_trace(T_FC, T_FC_CFG, tp, work, reset_prefix='{"ev":"fcworld"')
        allowed = P.open_ids(prop)
        for m in merged["mismatch"]:
            if m["prop"] != prop:
                continue
            out.violation(f"{m['what']} at {label} trace line {m['l']}", dict(property=prop, source="fc-trace", what=m["what"], observed=m.get("obs"),
                          world=world_of(m["l"]), case=None))
        for m in merged["known"]:
            if m["prop"] != prop:
                continue
            ids = set(m["id"].split("/"))
            if ids & allowed:
                kid = sorted(ids & allowed)[0]
                out.known.setdefault(kid, KNOWN_TEXT.get(kid, m["what"]))
            else:
                out.violation(f"{m['what']} matches finding {m['id']} which is not open", dict(property=prop, source="fc-trace", what=m["what"],
                              finding=m["id"], world=world_of(m["l"]), case=None))
        for st in merged["stopped"]:
            raise P.ToolError(f"trace validation stopped: {st}")
        for ln in lines:
            k = ln[7:ln.index('"', 7)]
            kinds[k] = kinds.get(k, 0) + 1
        runs += sum(1 for ln in lines if ln.startswith('{"ev":"fc"'))
        if lines:
            e = json.loads(lines[0])
            samples.append({"source": label, "world": e.get("w"), "expect": e.get("expect")})
    code = out.finish()
    coverage = dict(states=max(1, sum(i["distinct"] for i in instances) + total_events), transitions=max(1, sum(i["generated"] for i in instances) + total_events),
                    traces_validated_against_impl=runs, samples=samples[:3] or [{"note": "none"}], exhaustive=bool(instances),
                    trace_events=total_events, trace_events_by_kind=kinds, fast_check_runs=runs, instances=instances, design_notes=out.notes,
                    known_findings=sorted(out.known),
                    concrete_clauses=["emitted text re-parses with the source's media type", "no identifier that named a top-level declaration/import of the original is unresolved in the output",
                                      "relative specifiers of emitted dependencies resolve in the graph", "source map decodes and maps identifiers to the same identifier",
                                      "erasure predicate (AST walk)", "export names via star expansion, original vs emitted"],
                    explanation="design level: the tracer worklist with the ImportedExports lattice as coded reaches exactly the declarative public set for every pop order (MC_FastCheck); "
                                "every enumerated program is rendered, run through the real fast check and the retained declarations compared with the predicted public set; seeded random "
                                "workspace packages run through histories none/none/cold/warm/edit/none/stale/warm; every run is validated by TLC (T_FastCheck)")
    P.write_evidence(prop, tier, seed, "model_checking", coverage, time.time() - t0, len(out.violations),
                     assumptions=["swc parser/emitter trusted", "concrete clauses are evaluated by the projection and only compared by TLC (DESIGN section 8)"])
    if tier == "quick" or code == 0:
        shutil.rmtree(work, ignore_errors=True)
    return code


REGISTRY = {p: run for p in USES}
