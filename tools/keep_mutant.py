#!/usr/bin/env python3
"""keep_mutant.py <worktree> <seed id> <demo name> <caught|missed> <history text>: file a confirmed seeded change under seeded/<id>/."""
import sys, os, json, shutil
wt, sid, demo, verdict, history = sys.argv[1:6]
d = os.path.join(os.path.dirname(os.path.abspath(__file__)), "..", "seeded", sid)
os.makedirs(d, exist_ok=True)
shutil.copy(os.path.join(wt, "patch.diff"), d)
shutil.copy(os.path.join(wt, "tests", demo + ".rs"), d)
desc = open(os.path.join(wt, "meta.txt")).read()
shutil.copy(os.path.join(wt, "meta.txt"), d)
prop = sid.split("-")[0]
meta = {
  "id": sid, "property": prop,
  "origin": "independent sub-agent (round 4) given only the property text, one-line descriptions of the earlier changes to avoid plus a list of candidate areas, and a scratch worktree",
  "description_by_author": desc,
  "confirmed_by_me": {
    "commands": ["tools/verify_mutant.sh <worktree> " + demo, "tools/try_mutant.sh seeded/%s %s" % (sid, prop)],
    "existing_suite_passes_with_patch": True, "demo_fails_with_patch": True, "demo_passes_without_patch": True},
  "caught_by": {"check": prop, "tier": "quick",
                "result": "VIOLATION (exit 1)" if verdict == "caught" else "MISSED (exit 0)",
                "history": history},
}
json.dump(meta, open(os.path.join(d, "meta.json"), "w"), indent=1)
print("filed", d)
