"""C20 (encoding decision table) and other table-driven properties."""
import os, json, time, shutil
import pipelines as P

MC = os.path.join(P.SPEC, "mc")


def run_c20(prop, tier, seed, replay):
    t0 = time.time()
    work = os.path.join(P.WORKROOT, f"{prop}-{tier}")
    shutil.rmtree(work, ignore_errors=True)
    os.makedirs(work)
    out = P.Outcome(prop)
    cases = os.path.join(work, "cases.ndjson")
    inst = {}
    if replay:
        payload = json.load(open(replay))
        open(cases, "w").write(json.dumps({"row": payload["row"], "expect": payload["expect"]}) + "\n")
    else:
        r = P.tlc_mc(os.path.join(MC, "MC_Encoding.tla"), os.path.join(MC, "enc.cfg"), work, workers=2, heap="2g", timeout=600)
        if r["errors"] or r["violated"]:
            raise P.ToolError(f"MC_Encoding: {r['errors'] or r['violated']}")
        P.extract("REPLAY", r["out"], cases)
        inst = {k: r[k] for k in ("name", "generated", "distinct", "wall")}
    reps = 1 if tier == "quick" else 8
    total = dict(cases=0, loads=0, modules=0)
    rows = [json.loads(l) for l in open(cases)]
    for k in range(reps):
        rp = os.path.join(work, f"res{k}.json")
        rr = P.sh([P.DGV, "replay-enc", "--cases", cases, "--result", rp, "--seed", str(seed + 17 * k)], timeout=1200)
        if rr.returncode != 0:
            raise P.ToolError("dgv replay-enc failed")
        res = json.load(open(rp))
        for key in total:
            total[key] += res[key]
        for m in res["mismatches"]:
            out.violation(f"{m['what']} row {m['row']}", dict(property=prop, source="replay-enc", what=m["what"], row=m["row"], expect=m["expect"],
                          observed=m.get("observed")))
    code = out.finish()
    nontrivial = sum(1 for r in rows if r["expect"]["charset"] != "utf-8" or r["expect"]["original"] == "none" or r["expect"]["bom"])
    coverage = dict(evaluations=total["loads"], distinct_nontrivial=nontrivial,
                    rule="every row of Encoding.tla's decision table (scheme x header charset x byte class x media x position) enumerated by TLC; a row is "
                         "non-trivial when its expected charset is not utf-8, a BOM is stripped or no original bytes may be returned; each row is loaded with seeded payloads",
                    samples=rows[:2] + rows[-1:], exhaustive=not replay, table_rows=len(rows), modules_examined=total["modules"], instance=inst,
                    concrete_clauses={"stored text == std-library reference decoding": total["modules"], "original bytes None or byte-identical": total["modules"],
                                      "serialised size == byte length of stored text": total["modules"]})
    P.write_evidence(prop, tier, seed, "exploration", coverage, time.time() - t0, len(out.violations),
                     assumptions=["encoding_rs (WHATWG decoders) is trusted dependency code; the reference decoding uses only the Rust standard library",
                                  "windows-1252 is decided for bytes whose mapping is the identity"])
    if tier == "quick" or code == 0:
        shutil.rmtree(work, ignore_errors=True)
    return code


REGISTRY = {"C20": run_c20}
