"""C20 (encoding decision table) and other table-driven properties."""
import os, json, time, shutil
import pipelines as P

MC = os.path.join(P.SPEC, "mc")


def run_c20(prop, tier, seed, replay):
    t0 = time.time()
    work = os.path.join(P.WORKROOT, f"{prop}-{tier}")
    shutil.rmtree(work, ignore_errors=True)
    os.makedirs(work)
    out = P.Outcome(prop)
    cases = os.path.join(work, "cases.ndjson")
    inst = {}
    if replay:
        payload = json.load(open(replay))
        open(cases, "w").write(json.dumps({"row": payload["row"], "expect": payload["expect"]}) + "\n")
    else:
        r = P.tlc_mc(os.path.join(MC, "MC_Encoding.tla"), os.path.join(MC, "enc.cfg"), work, workers=2, heap="2g", timeout=600)
        if r["errors"] or r["violated"]:
            raise P.ToolError(f"MC_Encoding: {r['errors'] or r['violated']}")
        P.extract("REPLAY", r["out"], cases)
        inst = {k: r[k] for k in ("name", "generated", "distinct", "wall")}
    reps = 1 if tier == "quick" else 8
    total = dict(cases=0, loads=0, modules=0)
    rows = [json.loads(l) for l in open(cases)]
    for k in range(reps):
        rp = os.path.join(work, f"res{k}.json")
        rr = P.sh([P.DGV, "replay-enc", "--cases", cases, "--result", rp, "--seed", str(seed + 17 * k)], timeout=1200)
        if rr.returncode != 0:
            raise P.ToolError("dgv replay-enc failed")
        res = json.load(open(rp))
        for key in total:
            total[key] += res[key]
        for m in res["mismatches"]:
            out.violation(f"{m['what']} row {m['row']}", dict(property=prop, source="replay-enc", what=m["what"], row=m["row"], expect=m["expect"],
                          observed=m.get("observed")))
    code = out.finish()
    nontrivial = sum(1 for r in rows if r["expect"]["charset"] != "utf-8" or r["expect"]["original"] == "none" or r["expect"]["bom"])
    coverage = dict(evaluations=total["loads"], distinct_nontrivial=nontrivial,
                    rule="every row of Encoding.tla's decision table (scheme x header charset x byte class x media x position) enumerated by TLC; a row is "
                         "non-trivial when its expected charset is not utf-8, a BOM is stripped or no original bytes may be returned; each row is loaded with seeded payloads",
                    samples=rows[:2] + rows[-1:], exhaustive=not replay, table_rows=len(rows), modules_examined=total["modules"], instance=inst,
                    concrete_clauses={"stored text == std-library reference decoding": total["modules"], "original bytes None or byte-identical": total["modules"],
                                      "serialised size == byte length of stored text": total["modules"]})
    P.write_evidence(prop, tier, seed, "exploration", coverage, time.time() - t0, len(out.violations),
                     assumptions=["encoding_rs (WHATWG decoders) is trusted dependency code; the reference decoding uses only the Rust standard library",
                                  "windows-1252 is decided for bytes whose mapping is the identity"])
    if tier == "quick" or code == 0:
        shutil.rmtree(work, ignore_errors=True)
    return code




def run_c08(prop, tier, seed, replay):
    t0 = time.time()
    work = os.path.join(P.WORKROOT, f"{prop}-{tier}")
    shutil.rmtree(work, ignore_errors=True)
    os.makedirs(work)
    out = P.Outcome(prop)
    cases = os.path.join(work, "cases.ndjson")
    insts = []
    if replay:
        payload = json.load(open(replay))
        open(cases, "w").write(json.dumps({"doc": payload["doc"], "mt": payload["mt"], "expect": payload["expect"]}) + "\n")
    else:
        open(cases, "w").close()
        for cfg in (["an_q"] if tier == "quick" else ["an_q", "an_t"]):
            r = P.tlc_mc(os.path.join(MC, "MC_Analyzer.tla"), os.path.join(MC, cfg + ".cfg"), work, workers=min(8, P.NCPU), heap="8g", timeout=10800)
            if r["errors"] or r["violated"]:
                raise P.ToolError(f"MC_Analyzer {cfg}: {r['errors'] or r['violated']}")
            n = P.extract("REPLAY", r["out"], cases, "a")
            os.remove(r["out"])
            r["cases"] = n
            insts.append({k: r[k] for k in ("name", "generated", "distinct", "wall", "cases")})
    reps = 2 if tier == "quick" else 6
    rp = os.path.join(work, "res.json")
    rr = P.sh([P.DGV, "replay-analyzer", "--cases", cases, "--result", rp, "--seed", str(seed), "--reps", str(reps), "--corpus", "/repo/tests/specs"], timeout=3000)
    if rr.returncode != 0:
        raise P.ToolError("dgv replay-analyzer failed")
    res = json.load(open(rp))
    lines = open(cases).readlines()
    for m in res["mismatches"]:
        payload = dict(property=prop, source="replay-analyzer", what=m["what"], observed=m.get("observed"), text=m.get("text"))
        if "case" in m and m.get("doc") is not None:
            c = json.loads(lines[m["case"]])
            payload.update(doc=c["doc"], mt=c["mt"], expect=c["expect"])
        out.violation(f"{m['what']} {m.get('mt', '')} {json.dumps(m.get('doc'))[:100]}", payload)
    code = out.finish()
    nontrivial = 0
    for l in lines:
        c = json.loads(l)
        if c["expect"]["deps"] or c["expect"]["jsdoc"] or c["expect"]["tsRefs"] or c["expect"]["sourceMap"]:
            nontrivial += 1
    coverage = dict(evaluations=res["documents"], distinct_nontrivial=nontrivial,
                    rule="every document of Analyzer.tla with at most MaxItems items over the 38-item vocabulary x 9 headers x 2 footers x 6 media types (TLC-enumerated); "
                         "non-trivial = the expected ModuleInfo is non-empty; each document is rendered `reps` times with seeded trivia (block/line comments, astral and combining "
                         "characters, CRLF, unicode escapes in string literals, random quote style) and analysed by ParserModuleAnalyzer",
                    samples=[json.loads(lines[i]) for i in (0, len(lines) // 2, len(lines) - 1)] if lines else [],
                    exhaustive=not replay, descriptors=res["descriptors"], ranges_checked=res["ranges_checked"],
                    corpus_modules=res["corpus_modules"], corpus_descriptors=res["corpus_descriptors"], corpus_ranges=res["corpus_ranges"], instances=insts,
                    concrete_clauses=["every reported range, mapped onto the text (0-based line, character = Unicode scalar index), covers exactly the specifier token (quotes included when quoted)",
                                      "Dependency::includes(position) is answered by exactly the owning dependency for start / middle / end of every token and by none outside"])
    P.write_evidence(prop, tier, seed, "exploration", coverage, time.time() - t0, len(out.violations),
                     assumptions=["'every statically analysable dependency and nothing else' is decided for the modelled vocabulary, not for all of ECMAScript",
                                  "a module without any statement is not decided for the source-map pragma"])
    if tier == "quick" or code == 0:
        shutil.rmtree(work, ignore_errors=True)
    return code




def run_c16(prop, tier, seed, replay):
    t0 = time.time()
    work = os.path.join(P.WORKROOT, f"{prop}-{tier}")
    shutil.rmtree(work, ignore_errors=True)
    os.makedirs(work)
    out = P.Outcome(prop)
    cases = os.path.join(work, "cases.ndjson")
    insts = []
    args = []
    if replay:
        payload = json.load(open(replay))
        if payload.get("case"):
            open(cases, "w").write(json.dumps(payload["case"]) + "\n")
            args = ["--cases", cases]
        else:
            args = ["--n", str(payload.get("n", 100)), "--seed", str(payload.get("seed", seed)), "--corpus", "/repo/tests/specs"]
    else:
        cfg = "sym_q" if tier == "quick" else "sym_t"
        r = P.tlc_mc(os.path.join(MC, "MC_Symbols.tla"), os.path.join(MC, cfg + ".cfg"), work, workers=min(8, P.NCPU), heap="8g", timeout=10800)
        if r["errors"]:
            raise P.ToolError(f"MC_Symbols: {r['errors']}")
        for inv in r["violated"]:
            out.notes.append(f"design-level: {inv} violated")
        n = P.extract("REPLAY", r["out"], cases)
        os.remove(r["out"])
        r["cases"] = n
        insts.append({k: r[k] for k in ("name", "generated", "distinct", "wall", "cases", "violated")})
        if tier == "quick":
            # replay a seeded sample of the enumerated programs (all of them in the thorough tier)
            import random
            rnd = random.Random(seed)
            lines = open(cases).readlines()
            keep = [l for l in lines if rnd.random() < 12000 / max(1, len(lines))]
            open(cases, "w").writelines(keep)
        args = ["--cases", cases, "--n", "400" if tier == "quick" else "5000", "--seed", str(seed), "--corpus", "/repo/tests/specs"]
    tp = os.path.join(work, "sym.trace")
    rp = os.path.join(work, "sym.json")
    rr = P.sh([P.DGV, "symbols", "--trace", tp, "--result", rp] + args, timeout=3000)
    if rr.returncode != 0:
        raise P.ToolError("dgv symbols failed")
    res = json.load(open(rp))
    lines = open(tp).readlines()

    def world_of(l):
        for ln in lines[:l][::-1]:
            if ln.startswith('{"ev":"symworld"'):
                return json.loads(ln)
        return None
    for m in res["mismatches"]:
        out.violation(f"{m['what']} in {m['world']}: {m.get('msg', '')[:100]}", dict(property=prop, source="symbols", detail=m, seed=seed, n=100))
    merged = P.validate_trace(os.path.join(P.SPEC, "trace", "T_Symbols.tla"), os.path.join(P.SPEC, "trace", "T_Symbols.cfg"), tp, work,
                              reset_prefix='{"ev":"symworld"')
    for m in merged["mismatch"]:
        w = world_of(m["l"])
        out.violation(f"{m['what']} at trace line {m['l']}", dict(property=prop, source="symbols-trace", what=m["what"], observed=m.get("obs"),
                      world=w, seed=seed, n=100))
    for st in merged["stopped"]:
        raise P.ToolError(f"trace validation stopped: {st}")
    code = out.finish()
    kinds = {}
    for ln in lines:
        k = ln[7:ln.index('"', 7)]
        kinds[k] = kinds.get(k, 0) + 1
    coverage = dict(states=max(1, sum(i["distinct"] for i in insts) + merged["events"]), transitions=max(1, sum(i["generated"] for i in insts) + merged["events"]),
                    traces_validated_against_impl=kinds.get("symworld", 0), samples=[json.loads(lines[0])] if lines else [{"note": "none"}],
                    exhaustive=False, trace_events_by_kind=kinds, instances=insts, design_notes=out.notes,
                    explanation="design level: for every star re-export graph over three modules (self loops, cycles, diamonds) and every assignment of own names the visited-set DFS as coded "
                                "equals the ES fixpoint (own names win, default not re-exported); implementation level: enumerated programs are rendered and the real export key sets compared "
                                "with the prediction; projected symbol tables of enumerated programs, seeded random packages and the spec corpus are checked by TLC against WellFormedTree; "
                                "go-to-definition is run from every symbol under a step/time budget")
    P.write_evidence(prop, tier, seed, "model_checking", coverage, time.time() - t0, len(out.violations),
                     assumptions=["the symbol filler is not modelled: its output is checked against the tree invariant, not predicted",
                                  "'each other symbol' is read as symbols whose declarations are definitions (the crate's own spec helper makes the same distinction)"])
    if tier == "quick" or code == 0:
        shutil.rmtree(work, ignore_errors=True)
    return code


REGISTRY = {"C20": run_c20, "C08": run_c08, "C16": run_c16}
