#!/bin/bash
# run_all.sh [tier] [ids...]: run checks 4 at a time, summarise
TIER=${1:-quick}; shift
IDS=${@:-$(python3 -c "import json;print(' '.join(c['property_id'] for c in json.load(open('/verif/MANIFEST.json'))['checks']))")}
mkdir -p /verif/.work/all; rm -f /verif/.work/all/summary.log
echo $IDS | tr ' ' '\n' | xargs -P $( [ "$TIER" = thorough ] && echo 2 || echo 4 ) -I{} sh -c "cd /verif && ./check {} --tier $TIER > .work/all/{}.log 2>&1; echo \"{} exit=\$?\" >> .work/all/summary.log"
sort /verif/.work/all/summary.log
grep -h "VIOLATION\|TOOL-ERROR" /verif/.work/all/*.log | head -20
