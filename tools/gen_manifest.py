#!/usr/bin/env python3
"""Regenerates /verif/MANIFEST.json from the table below (single source of truth)."""
import json, os
HERE = os.path.dirname(os.path.dirname(os.path.abspath(__file__)))
MC = "model_checking"
CHECKS = {
 "C01": (MC, "TLC enumerates every module world of the bounded instances with the operational builder model (spec/Build.tla); each terminal state is replayed into the real crate and the projected graph (entries, redirects, the five dependency fields) compared with the model's prediction", "4.3, 7 C01",
         "bounded vocabulary of import forms and specifier kinds (spec/mc/*.cfg); swc parser trusted", "TLC-enumerated worlds replayed into ModuleGraph::build, projection equality"),
 "C02": (MC, "every validate()/errors()/valid() call on real graphs is a trace event that TLC checks against the declarative reachable-failure set of GraphOps.tla; graphs come from TLC-enumerated worlds", "4.4, 7 C02",
         "graphs are those buildable from the bounded worlds", "TLA+ trace validation of walk/validate events against ReachableFailures"),
 "C14": (MC, "every resolve/get/try_get/contains/try_get_prefer_types/specifiers/resolve_dependency call on real graphs is validated by TLC against the declarative redirect-following operators; chains 0..13 and cycles enumerated by TLC", "4.4, 7 C14",
         "known findings F2,F3,F10,F11,F12 are reported, not alarmed", "TLA+ trace validation of lookup events against Reached/Final"),
 "C15": (MC, "every walk of a real graph (all option combinations, single-root walks, caller skips) is validated by TLC: no duplicate, yielded set = declarative WalkSet, error listing = failures of visited entries; the as-coded iterator model predicts the exact yield sequence (drift detector)", "4.4, 7 C15",
         "graphs are those buildable from the bounded worlds", "TLA+ trace validation of walk events against WalkSet"),
 "C17": (MC, "prune_types() of the real All graph vs the real CodeOnly build of the same TLC-enumerated world, compared by TLC with the observational equality of GraphOps.tla; design-level the same equality is an invariant of the builder model", "4.4, 7 C17",
         "CTX family is a known finding", "TLA+ trace validation of prune events (ObsCode equality)"),
 "C18": (MC, "segment() at every module of real graphs vs the original (lookups, dependency resolution, validation) and vs a direct build, evaluated by TLC on projected graphs", "4.4, 7 C18",
         "CTX family and F7 are known findings", "TLA+ trace validation of segment events"),
 "C19": (MC, "incremental build vs at-once build, rebuild with known roots, and edit/reload histories on TLC-enumerated worlds; equality evaluated by TLC on the projected graphs", "4.5, 7 C19",
         "CTX family is a known finding", "TLA+ trace validation of incr/rebuild/reload events"),
 "C03": (MC, "fault enumeration through the model: TLC enumerates worlds in which every specifier answers with every response kind (module, missing, loader error, external, redirect chains 0..14 and cycles, redirect limit 0..12); every terminal state is replayed and entries, referrers, pending slots and panics compared; seeded registry worlds with faulted metadata / manifests / content loads are built with full instrumentation and every build validated by TLC (failed load => error entry of that specifier, nothing pending, entries only for requested specifiers, referrer present)", "4.3, 7 C03",
         "fault placements in registry worlds are sampled (seeded), exhaustive for the URL profiles; decode/parse errors carry no referrer by construction", "TLC fault enumeration replayed + TLA+ trace validation of faulted registry builds"),
 "C04": (MC, "design level: TLC explores every interleaving of load completions of the small-step builder model (MC_Steps) and checks that the terminal graph, including error referrers, equals the in-order run, plus deadlock freedom and termination under fairness; implementation level: every TLC-generated schedule is replayed through gated loader futures against the real builder (graph compared with the model), and registry worlds are run under reverse / in-order / random schedules and repeated with fresh hasher state; a trace spec checks the terminal observation (serialised graph, error ranges, package table, lockfile) is unique per world", "4.3, 7 C04",
         "registry-world schedules are sampled; URL-world schedules are exhaustive for the bounded instance", "TLC schedule enumeration replayed through gated loads + trace validation of observation uniqueness"),
 "C13": (MC, "seeded one-package registry worlds exercising every serialised field are built 21 ways (no embedded module information / moduleGraph2 / moduleGraph1 x cache contents x graph kind) and TLC checks on the projected graphs that all variants coincide; the serde round trip of every ModuleInfo (generated and corpus sources) is an identity check carried by the harness", "4.3, 7 C13, 8",
         "the round-trip clause is encode/decode fidelity, evaluated concretely, not by TLC", "TLA+ trace validation of build variants (T_Info) + concrete round-trip clause"),
 "C20": ("exploration", "the complete decision table of Encoding.tla (scheme x content-type charset x byte class x media type x root/dependency, 384 rows) is enumerated by TLC and every row is loaded through a real one-module build with seeded payloads; stored text is compared with an independent std-library decoding, original bytes must be None or byte-identical and as the table predicts, size must equal the stored text's byte length", "4.8, 7 C20",
         "the decoders themselves (encoding_rs) are trusted; this is an exhaustive exploration of a decision table, not a transition system", "TLC-enumerated decision table replayed into ModuleGraph::build"),
 "C09": (MC, "design level: MC_FastCheck enumerates all small programs (modules, declarations, references, import aliases, star re-exports, default exports) and checks that the tracer worklist with the ImportedExports lattice as coded reaches exactly the declarative public closure for every pop order; every program is rendered and run through the real fast check and the retained declarations compared with the predicted set; seeded random workspace packages and their emitted modules are checked by TLC for the concrete clauses (re-parse, no dangling identifier, specifiers resolve, source map faithful)", "4.7, 7 C09",
         "re-parse / source-map / dangling-identifier clauses are evaluated by the projection (parser and VLQ decoding), TLC only compares; F22 is a known finding", "TLC-enumerated programs replayed into fast check + trace validation (T_FastCheck)"),
 "C10": (MC, "Transform.tla transcribes the emit-or-diagnostic decision table of the transform (function / arrow / variable / class member / module-level shapes, 367 shapes); TLC enumerates it, each shape is rendered as a one-declaration package, run through the real fast check and the outcome (module vs exact diagnostic codes) compared; the erasure predicate (AST walk: bodies, statements, initialisers, parameter and return types, private members, decorators) is evaluated on every emitted module of shapes and seeded random packages and checked by TLC", "4.7, 7 C10",
         "the erasure predicate is a syntactic predicate on one output, evaluated by the projection; F19 is a known finding", "TLC-enumerated decision table replayed + trace validation of the erasure clause"),
 "C11": (MC, "as C09 for the minimality half (nothing outside the predicted public set is retained); for random packages TLC checks per run that entrypoint export names (star re-exports expanded) are preserved, other modules export a subset, nothing new appears at top level and retained declarations keep their kind", "4.7, 7 C11",
         "annotation text equality is not compared (DESIGN section 8)", "TLC-enumerated programs replayed + trace validation (T_FastCheck)"),
 "C12": (MC, "histories none / none / cold / warm / edit / none / stale / warm of seeded random workspace packages (with and without declarations that need inference) run through the real fast check with a recording cache; TLC checks per run all-or-nothing per package, recorded dependencies = dependencies the emitted text declares, and against the cache-less run of the same sources: same modules emitted, same text, dependencies and source maps; repeated cache-less runs identical", "4.7, 7 C12",
         "F8 is a known finding; histories are sampled", "TLA+ trace validation of fast-check histories (T_FastCheck)"),
 "C08": ("exploration", "Analyzer.tla states, over a vocabulary of 33 dependency-bearing items, 9 header and 2 footer forms and 6 media types, which ModuleInfo the analyser must return (kinds, order, unescaped text, attribute class, which pragma attaches to which import, what is ignored per media type); TLC enumerates every document of <= 2 (thorough 3) items and each is rendered with seeded trivia and analysed by the real ParserModuleAnalyzer; every reported range is mapped back onto the text and must cover exactly the token; Dependency::includes is probed at start/middle/end of every token; the range and includes clauses are also run on every module source of the spec corpus", "4.8, 7 C08",
         "decided for the modelled vocabulary; range arithmetic is checked by the renderer's knowledge of what it wrote, not by TLC", "TLC-enumerated documents replayed into the analyser (spec -> impl)"),
 "C16": (MC, "design level: MC_Symbols checks for every star re-export graph over three modules (self loops, cycles, diamonds) that the visited-set DFS as coded equals the ES fixpoint; implementation level: enumerated programs are rendered and the real resolved export key sets compared; projected symbol tables (enumerated programs, seeded random packages, the spec corpus) are validated by TLC against WellFormedTree; go-to-definition runs from every symbol under a budget", "4.8, 7 C16",
         "the symbol filler is checked against the invariant, not predicted", "TLC-enumerated programs replayed + trace validation of symbol tables (T_Symbols)"),
 "C05": (MC, "every loader call, lockfile read and write of seeded registry + remote worlds (lockfile absent / matching / wrong, tampered bytes and manifests, stale caches, redirects, cache-only probes) is a trace event; TLC checks per call that the known checksum is presented, and at the end that rejected content is not admitted, the retry discipline, rejected checksummed redirects and exact, non-overwriting lockfile writes", "4.6, 7 C05",
         "SHA-256 values are computed by the harness and compared as tokens; F9 is a known finding", "TLA+ trace validation of loader/locker events (T_Jsr)"),
 "C06": (MC, "function level: TLC enumerates the whole bounded domain of resolve_version (registries x requirements x already-selected x cached x cutoff), proves tiers-as-coded == property statement at design level and every combination is replayed into the real function; graph level: every on_resolve event of registry-world builds is validated in order against the statement with the selections made so far", "4.6, 7 C06",
         "requirement matching is deno_semver's (calibrated table)", "TLC-enumerated domain replayed into resolve_version + trace validation of on_resolve events"),
 "C07": (MC, "for every built registry world TLC checks: jsr: specifiers redirect to the file the selected version's export map names, unknown-export errors list the manifest's exports, mappings follow resolutions, exports used, per-package jsr:/npm: requirements (sound and complete), URL<->name@version attribution", "4.6, 7 C07",
         "F18 is a known finding; registry worlds are seeded random", "TLA+ trace validation of built package tables (T_Jsr)"),
}
NA = []
m = {"version": 1, "setup_cmd": "./check setup",
     "hooks": {"guard": "deno_graph_verif",
               "enable": "harness/.cargo/config.toml passes --cfg deno_graph_verif in rustflags to every crate it builds, including the path dependency /repo",
               "baseline_off_cmd": "cd /repo && cargo test --workspace --no-fail-fast --offline",
               "source_commits": [], "add_only": True},
     "engines": [
        {"name": "tlc", "path": "tools/tlc.sh", "serves_properties": sorted(CHECKS), "kind_free_text": "TLC 1.8.0 explicit-state model checker: bounded instances spec/mc/*.cfg and trace specifications spec/trace/*.tla"},
        {"name": "dgv", "path": "harness", "serves_properties": sorted(CHECKS), "kind_free_text": "Rust conformance harness (path dependency on /repo): replays TLC-generated cases into the real crate, records traces of real calls"}],
     "checks": [], "not_applicable": NA,
     "notes": "All decisions are made by TLC on the explicit TLA+ specification in spec/; see DESIGN.md."}
for pid in sorted(CHECKS):
    cat, text, ref, note, tech = CHECKS[pid]
    m["checks"].append({"property_id": pid, "quick_cmd": f"./check {pid} --tier quick", "thorough_cmd": f"./check {pid} --tier thorough",
                        "evidence_file": f"evidence/{pid}.json", "replay_cmd_template": f"./check {pid} --replay {{path}}", "engine": "tlc",
                        "level_claimed": {"category": cat, "text": text, "design_ref": ref}, "level_note": note, "technique": tech})
claimed = set(CHECKS)
props = [json.loads(l)["id"] for l in open(os.path.join(HERE, "properties.jsonl"))]
for p in props:
    if p not in claimed and not any(n["property_id"] == p for n in NA):
        NA.append({"property_id": p, "reason": "check not built yet in this revision (work in progress; see DESIGN.md section 7)"})
json.dump(m, open(os.path.join(HERE, "MANIFEST.json"), "w"), indent=1)
print("claimed", sorted(claimed), "n/a", [n["property_id"] for n in NA])
