#!/bin/sh
# TLC wrapper: module search path = /verif/spec (+ subdirs), big thread stack for recursive operators.
# usage: tlc.sh <heap e.g. 8g> <tlc args...>
HERE="$(cd "$(dirname "$0")/.." && pwd)"
HEAP="$1"; shift
exec java -XX:+UseParallelGC -Xmx"$HEAP" -Xss1g \
  -DTLA-Library="$HERE/spec:$HERE/spec/mc:$HERE/spec/trace" ${TLC_JAVA_OPTS:-} \
  -cp /opt/veriftools/tla/tla2tools.jar:/opt/veriftools/tla/CommunityModules-deps.jar tlc2.TLC "$@"
