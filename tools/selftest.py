"""./check selftest — demonstrate that the binding bites, in both directions (DESIGN Part II 5.4).

 1. spec -> impl: the cases TLC prints for instance roots_q replay cleanly; after ONE predicted field of one case is
    corrupted (a module removed from the predicted graph / a dependency target changed) the replay reports a mismatch.
 2. impl -> spec: the query trace recorded from the real crate is accepted by T_Ops without MISMATCH; after ONE
    recorded field is corrupted (a walk yields one entry less; a validation verdict is flipped; a lookup result is
    changed; a prune result loses a slot) TLC prints a MISMATCH for exactly that line.
 3. removing the `reset` event that introduces a world (a "dropped hook") makes the rest of that world's events
    unexplainable: TLC stops or prints mismatches.
Exit 0 if every corruption is detected and the clean inputs pass; 2 otherwise (a selftest failure is a tool error,
never a property violation).
"""
import os, json, shutil, random, copy
import pipelines as P
import props_core as C


def run():
    work = os.path.join(P.WORKROOT, "selftest")
    shutil.rmtree(work, ignore_errors=True)
    os.makedirs(work)
    P.ensure_harness()
    rng = random.Random(7)
    r = P.tlc_mc(os.path.join(C.MC, C.CORE), os.path.join(C.MC, "roots_q.cfg"), work, workers=4, timeout=900)
    if r["errors"]:
        raise P.ToolError(f"TLC errors {r['errors'][:2]}")
    cases = os.path.join(work, "cases.ndjson")
    n = P.extract("REPLAY", r["out"], cases, "w")
    lines = open(cases).read().splitlines()
    lines = lines[:: max(1, len(lines) // 300)]
    failures = []

    def replay(case_lines, tag, events=None):
        cp = os.path.join(work, f"{tag}.cases")
        open(cp, "w").write("\n".join(case_lines) + "\n")
        rp = os.path.join(work, f"{tag}.result")
        tp = os.path.join(work, f"{tag}.trace")
        cmd = [P.DGV, "replay-core", "--cases", cp, "--result", rp, "--threads", "4"]
        if events:
            cmd += ["--trace", tp, "--events", events, "--trace-every", "1", "--trace-offset", "0"]
        if P.sh(cmd, timeout=900).returncode != 0:
            raise P.ToolError("dgv replay-core failed")
        return json.load(open(rp)), tp

    # ---- 1. spec -> impl
    res, _ = replay(lines, "clean")
    hard = [m for m in res["mismatches"] if "DRIFT" not in m.get("prop", [])]
    P.log(f"[selftest] clean replay: {res['cases']} cases, {len(hard)} mismatches")
    if hard:
        failures.append("clean replay reports mismatches")
    corrupted = 0
    detected = 0
    for li in rng.sample(range(len(lines)), min(40, len(lines))):
        c = json.loads(lines[li])
        g = c["graphs"]["all"]
        mods = [k for k, v in g["slots"].items() if v.get("k") == "mod"]
        if len(g["slots"]) >= 2 and rng.random() < 0.5:
            victim = rng.choice([k for k in g["slots"] if k not in g["roots"]] or list(g["slots"]))
            del g["slots"][victim]
            how = f"slot {victim} removed from prediction"
        elif mods and any(g["slots"][m]["deps"] for m in mods):
            m = rng.choice([m for m in mods if g["slots"][m]["deps"]])
            d = g["slots"][m]["deps"][0]
            d["dyn"] = not d["dyn"]
            how = f"dyn flag of {m}.deps[0] flipped"
        else:
            continue
        corrupted += 1
        res, _ = replay([json.dumps(c)], "corrupt")
        if any(m["what"] in ("graph", "referrer") for m in res["mismatches"]):
            detected += 1
        else:
            failures.append(f"replay did not notice: {how} (case line {li})")
    P.log(f"[selftest] spec->impl corruptions detected {detected}/{corrupted}")
    if corrupted == 0:
        failures.append("no prediction could be corrupted")

    # ---- 2. impl -> spec
    sample = lines[:: max(1, len(lines) // 25)]
    _, tp = replay(sample, "trace", events="walk,lookup,prune,segment,incr")
    tl = open(tp).read().splitlines()
    clean = P.validate_trace(C.T_OPS, C.T_OPS_CFG, tp, work, nshards=4)
    P.log(f"[selftest] clean trace: {clean['events']} events, {len(clean['mismatch'])} mismatches, {len(clean['known'])} known, stopped {len(clean['stopped'])}")
    if clean["stopped"] or clean["events"] != len(tl):
        failures.append("clean trace not accepted in full")
    clean_bad = {m["l"] for m in clean["mismatch"]} | {m["l"] for m in clean["known"]}

    def corrupt(ev):
        k = ev["ev"]
        if k == "walk" and len(ev["items"]) >= 1 and not ev["skip"]:
            ev["items"] = ev["items"][:-1]
            return "walk yields one entry less"
        if k == "valid":
            ev["ok"] = not ev["ok"]
            return "validation verdict flipped"
        if k == "lookup" and isinstance(ev.get("get"), dict) and ev["get"].get("t") == "mod":
            ev["get"] = {"t": "none"}
            return "get() result replaced by none"
        if k == "prune" and len(ev.get("pruned", {}).get("slots", {})) >= 1:
            ev["pruned"]["slots"].pop(sorted(ev["pruned"]["slots"])[0])
            return "pruned graph loses a slot"
        return None
    by_kind = {}
    tried = 0
    found = 0
    idxs = list(range(len(tl)))
    rng.shuffle(idxs)
    for i in idxs:
        ev = json.loads(tl[i])
        if ev["ev"] == "reset" or (i + 1) in clean_bad or by_kind.get(ev["ev"], 0) >= 3:
            continue
        how = corrupt(ev)
        if not how:
            continue
        by_kind[ev["ev"]] = by_kind.get(ev["ev"], 0) + 1
        tried += 1
        t2 = tl[:]
        t2[i] = json.dumps(ev, separators=(",", ":"))
        p2 = os.path.join(work, "corrupt.trace")
        open(p2, "w").write("\n".join(t2) + "\n")
        w2 = os.path.join(work, "cw")
        shutil.rmtree(w2, ignore_errors=True)
        os.makedirs(w2)
        r2 = P.validate_trace(C.T_OPS, C.T_OPS_CFG, p2, w2, nshards=4)
        hit = any(m["l"] == i + 1 for m in r2["mismatch"] + r2["known"]) or r2["stopped"]
        if hit:
            found += 1
        else:
            failures.append(f"trace corruption not noticed: {how} at line {i + 1}")
    P.log(f"[selftest] impl->spec corruptions detected {found}/{tried} ({by_kind})")
    if tried == 0:
        failures.append("no event could be corrupted")

    # ---- 3. a dropped reset event
    resets = [i for i, l in enumerate(tl) if l.startswith('{"ev":"reset"')]
    def gkey(i):
        g = json.loads(tl[i])["g"]
        return json.dumps([g["slots"], g["redirects"], g["roots"]], sort_keys=True)
    differing = [b for a, b in zip(resets, resets[1:]) if gkey(a) != gkey(b) and len(json.loads(tl[b])["g"]["slots"]) != len(json.loads(tl[a])["g"]["slots"])]
    if differing:
        i = differing[len(differing) // 2]
        t3 = tl[:i] + tl[i + 1:]
        p3 = os.path.join(work, "dropped.trace")
        open(p3, "w").write("\n".join(t3) + "\n")
        w3 = os.path.join(work, "dw")
        os.makedirs(w3, exist_ok=True)
        r3 = P.validate_trace(C.T_OPS, C.T_OPS_CFG, p3, w3, nshards=1)
        noticed = bool(r3["stopped"]) or len(r3["mismatch"]) > len(clean["mismatch"])
        P.log(f"[selftest] dropped reset event noticed: {noticed}")
        if not noticed:
            failures.append("events of a world whose reset event was dropped were explained by the previous (different) graph")

    shutil.rmtree(work, ignore_errors=True)
    for f in failures:
        P.log("SELFTEST-FAIL: " + f)
    P.log("[selftest] " + ("ok" if not failures else "FAILED"))
    return 0 if not failures else 2
