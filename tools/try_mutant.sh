#!/bin/bash
# try_mutant.sh <seeded dir> <check id>...: apply the patch to /repo, run the quick checks, always revert.
D=$(realpath $1); shift
cd /repo && git status --porcelain | grep -q . && { echo "/repo not clean"; exit 2; }
git -C /repo apply $D/patch.diff || { echo "patch does not apply"; exit 2; }
trap 'git -C /repo reset -q --hard HEAD; echo reverted' EXIT
cd /verif
for c in "$@"; do
  echo "=== $c"; ./check $c --tier quick 2>&1 | grep -E "VIOLATION|KNOWN-FINDING|TOOL-ERROR|SPEC-DRIFT" | cut -c1-220; echo "exit=${PIPESTATUS[0]}"
done
