#!/usr/bin/env python3
"""Extract the JSON payloads of TLC `<<"TAG", "...json...">>` print lines into ndjson."""
import sys, json
tag = sys.argv[1]; src = sys.argv[2]; dst = sys.argv[3]
prefix = '<<"%s", ' % tag
n = 0
with open(src, errors='replace') as f, open(dst, 'w') as o:
    for line in f:
        if line.startswith(prefix):
            lit = line.rstrip('\n')[len(prefix):-2]
            o.write(json.loads(lit)); o.write('\n'); n += 1
print(n)
