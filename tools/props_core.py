"""Core pipeline (worlds -> builds -> graph queries): C01, C02, C14, C15, C17, C18, C19."""
import os, json, time, math, shutil
import pipelines as P

MC = os.path.join(P.SPEC, "mc")
T_OPS = os.path.join(P.SPEC, "trace", "T_Ops.tla")
T_OPS_CFG = os.path.join(P.SPEC, "trace", "T_Ops.cfg")

KNOWN_TEXT = {
    "F4": "walk(follow_dynamic=true).validate() is Ok although a Missing entry is reachable and nothing reports it in place (missing root / redirected root / types dependency of a module skipped in a types-only walk)",
    "F7": "segment() of a TypesOnly graph drops a JS module that has a types dependency (or is unchecked JS); a direct build of the same roots contains it",
    "CTX": "entry admission depends on the first-load context (.json without attribute needs root/dynamic/type:json; extensionless needs root), so pruned / segmented / incrementally built graphs keep the entry admitted in the original context",
    "F2": "resolve() stops after 10 nodes: lookups on a chain of >= 10 redirects disagree with the walk",
    "F3": "specifiers() omits the sources of redirect chains of two or more hops (looks up the raw redirect target)",
    "F10": "resolve_dependency(prefer_types=true) returns None when the dependency-level types target failed although the code module is loaded",
    "F11": "resolve() is not idempotent on a redirect cycle",
    "F20": "inside a loader-built redirect cycle the member carrying the TooManyRedirects entry depends on which member was requested first",
    "F23": "segment() of a code-only graph keeps configured type-import records but drops their targets, which a direct code-only build loads",
    "F12": "an entry stored at a specifier that is also a redirect source: the walk yields the entry, lookups follow the redirect",
}

# events each property needs from the harness, and an estimate of events per case (for budgeting)
PROPS = {
    "C01": dict(events=None, per_case=0, invariants=["NoPendingInv"]),
    "C02": dict(events="walk", per_case=22),
    "C14": dict(events="lookup", per_case=12),
    "C15": dict(events="walk", per_case=22),
    "C17": dict(events="prune", per_case=1),
    "C18": dict(events="segment", per_case=3),
    "C19": dict(events="incr,reload", per_case=8),
}
CORE = "MC_Core.tla"
CHAIN = "MC_Chain.tla"
NPM = "MC_Npm.tla"
FIN = "MC_Fin.tla"
IMP = "MC_Imports.tla"
QUICK = [(CORE, "core_q"), (CORE, "policy_q"), (CORE, "forms_q"), (CORE, "redir_q"), (CORE, "roots_q"), (CORE, "tdep_q"), (CORE, "optdyn_q"), (CORE, "optskip_q"), (CORE, "optboth_q"), (CHAIN, "chain_q"), (NPM, "npm_q"), (FIN, "fin_q"), (IMP, "imports_q")]
THOROUGH = QUICK + [(FIN, "fin_t"), (CORE, "core_t"), (CORE, "redir_t"), (CORE, "roots_t"), (CHAIN, "chain_t"), (NPM, "npm_t")]
NO_OPT = [x for x in THOROUGH if not x[1].startswith("opt")]
def _q(*names):
    return [(CHAIN if n.startswith("chain") else NPM if n.startswith("npm") else FIN if n.startswith("fin") else IMP if n.startswith("imports") else CORE, n) for n in names]
# quick tier: the instances that matter for the property; thorough tier: everything
PROFILES = {
    "quick": {"default": QUICK,
              "C02": _q("core_q", "policy_q", "tdep_q", "redir_q", "npm_q", "fin_q", "imports_q"),
              "C14": _q("core_q", "redir_q", "tdep_q", "chain_q", "fin_q", "imports_q"),
              "C15": _q("core_q", "forms_q", "tdep_q", "redir_q", "npm_q", "fin_q", "imports_q"),
              "C17": _q("core_q", "forms_q", "redir_q", "tdep_q", "npm_q", "fin_q", "imports_q"),
              "C18": _q("core_q", "redir_q", "roots_q", "tdep_q", "fin_q", "imports_q"),
              "C19": _q("core_q", "roots_q", "redir_q", "hist_q", "fin_q", "imports_q")},
    # the build-option profiles belong to C01 / C03 (which are quantified over build options); the properties about
    # queries on a built graph are stated for the default options
    "thorough": {"default": THOROUGH, "C19": NO_OPT + [(CORE, "hist_q"), (CORE, "hist_t")],
                 "C02": NO_OPT, "C14": NO_OPT, "C15": NO_OPT, "C17": NO_OPT, "C18": NO_OPT},
}
TRACE_BUDGET = {"quick": 120_000, "thorough": 1_500_000}


def run(prop, tier, seed, replay):
    t0 = time.time()
    cfgp = PROPS[prop]
    work = os.path.join(P.WORKROOT, f"{prop}-{tier}")
    shutil.rmtree(work, ignore_errors=True)
    os.makedirs(work)
    out = P.Outcome(prop)
    cases_path = os.path.join(work, "cases.ndjson")
    instances = []
    if replay:
        payload = json.load(open(replay))
        with open(cases_path, "w") as f:
            f.write(json.dumps(payload["case"]) + "\n")
        ncases = 1
    else:
        profiles = PROFILES[tier].get(prop, PROFILES[tier]["default"])
        open(cases_path, "w").close()
        ncases = 0
        for mod, prof in profiles:
            cfg = os.path.join(MC, prof + ".cfg")
            if not os.path.exists(cfg):
                continue
            r = P.tlc_mc(os.path.join(MC, mod), cfg, work, workers=min(8, P.NCPU),
                         timeout=1500 if tier == "quick" else 7200)
            if r["errors"]:
                raise P.ToolError(f"TLC errors in {prof}: {r['errors'][:3]}")
            n = P.extract("REPLAY", r["out"], cases_path, "a")
            os.remove(r["out"])
            r["cases"] = n
            instances.append({k: r[k] for k in ("name", "generated", "distinct", "wall", "cases", "violated")})
            ncases += n
            # a design-level invariant violated in the model is not, by itself, a violation of the
            # implementation (DESIGN section 6); it is reported and must be reproduced by the replay.
            for inv in r["violated"]:
                out.notes.append(f"design-level: invariant {inv} violated in {prof}")
        if ncases == 0:
            raise P.ToolError("no cases generated")
    case_lines = P.Lines(cases_path)

    # ---- spec -> impl: replay every case; impl -> spec: record query traces for a sample
    trace_path = os.path.join(work, "trace.ndjson")
    result_path = os.path.join(work, "result.json")
    cmd = [P.DGV, "replay-core", "--cases", cases_path, "--result", result_path, "--threads", str(min(P.NCPU, 16))]
    every = 1
    if cfgp["events"]:
        budget = TRACE_BUDGET[tier]
        every = max(1, math.ceil(ncases * cfgp["per_case"] * 3 / budget))
        cmd += ["--trace", trace_path, "--events", cfgp["events"], "--trace-every", str(every), "--trace-offset", str(seed % every)]
    r = P.sh(cmd, timeout=3000)
    if r.returncode != 0:
        raise P.ToolError(f"dgv replay-core exit {r.returncode}")
    res = json.load(open(result_path))

    def case_by_index(i):
        return json.loads(case_lines[i]) if 0 <= i < len(case_lines) else None

    # graph-level mismatches found by the replay itself (C01: closure/dependency fields; C03 handled elsewhere)
    for m in res["mismatches"]:
        if prop in m.get("prop", []):
            P.absorb_replay_mismatch(out, prop, m, case_by_index(m["case"]))

    merged = dict(mismatch=[], known=[], drift=[], events=0, shards=0, stopped=[])
    trace_lines = []
    if cfgp["events"]:
        with open(trace_path) as f:
            trace_lines = f.readlines()
        resets = [(i, json.loads(l)["id"]) for i, l in enumerate(trace_lines) if l.startswith('{"ev":"reset"')]

        def case_of_line(l):
            cur = None
            for i, rid in resets:
                if i + 1 <= l:
                    cur = rid
                else:
                    break
            if cur is None:
                return None
            return case_by_index(int(cur.split("/")[0][4:]))
        merged = P.validate_trace(T_OPS, T_OPS_CFG, trace_path, work)
        P.absorb_trace(out, merged, prop, trace_lines, case_of_line, KNOWN_TEXT)

    code = out.finish()
    states = sum(i["distinct"] for i in instances) or 1
    trans = sum(i["generated"] for i in instances) or 1
    samples = []
    if case_lines:
        samples.append({"world": json.loads(case_lines[0])["w"]})
        samples.append({"world": json.loads(case_lines[len(case_lines) // 2])["w"]})
    for l in trace_lines[1:3]:
        samples.append({"trace_event": json.loads(l)})
    ev_kinds = {}
    for l in trace_lines:
        k = l[7:l.index('"', 7)]
        ev_kinds[k] = ev_kinds.get(k, 0) + 1
    coverage = dict(
        states=states, transitions=trans,
        traces_validated_against_impl=res["cases"] + ev_kinds.get("reset", 0),
        samples=samples,
        exhaustive=not replay,
        replayed_cases=res["cases"], real_builds=res["builds"],
        trace_events=len(trace_lines), trace_events_by_kind=ev_kinds, trace_sample_every=every,
        trace_shards=merged["shards"], spec_drift=len(out.drift),
        known_findings=sorted(out.known), design_notes=out.notes, instances=instances,
        explanation="TLC enumerates every world of the listed instances with the operational builder model; every terminal "
                    "state is replayed into the real crate (projection compared field by field); a sample of the real graphs is "
                    "queried and every call validated by TLC against the declarative operators of GraphOps.tla",
    )
    P.write_evidence(prop, tier, seed, "model_checking", coverage, time.time() - t0, len(out.violations),
                     assumptions=["deno_ast/swc parser and url crate are trusted", "worlds are bounded by the instance constants in spec/mc/*.cfg"])
    if tier == "quick" or code == 0:
        shutil.rmtree(work, ignore_errors=True)
    return code


REGISTRY = {p: run for p in PROPS}


def run_replay_only(prop, payload, work, out, t0, tier, seed):
    """re-execute one replay-core violation (used by C03)"""
    cases_path = os.path.join(work, "cases.ndjson")
    with open(cases_path, "w") as f:
        f.write(json.dumps(payload["case"]) + "\n")
    res_path = os.path.join(work, "result.json")
    r = P.sh([P.DGV, "replay-core", "--cases", cases_path, "--result", res_path, "--threads", "1"], timeout=600)
    if r.returncode != 0:
        raise P.ToolError("dgv replay-core failed")
    res = json.load(open(res_path))
    for m in res["mismatches"]:
        if prop in m.get("prop", []) or m["what"] == "graph":
            out.violation(f"{m['what']} {m.get('path', '')}", dict(property=prop, source="replay-core", mismatch=m, case=payload["case"]))
    code = out.finish()
    P.write_evidence(prop, tier, seed, "model_checking", dict(states=1, transitions=1, traces_validated_against_impl=1,
                     samples=[{"world": payload["case"]["w"]}], explanation="replay of one recorded case"), time.time() - t0, len(out.violations))
    return code
