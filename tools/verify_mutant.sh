#!/bin/bash
# verify_mutant.sh <worktree> <demo-test-name>: confirm (1) suite passes with patch (demo aside), (2) demo fails with patch, (3) demo passes without.
WT=$1; DEMO=$2; export CARGO_TARGET_DIR=$WT/target
cd $WT || exit 2
git diff -- src > /tmp/vm_$DEMO.diff
[ -s /tmp/vm_$DEMO.diff ] || { echo "no src change applied"; exit 2; }
echo "== (2) demo with patch (expect FAIL)"; cargo test --offline --test $DEMO 2>&1 | grep -E "^test result|panicked" | head -3
mv tests/$DEMO.rs /tmp/$DEMO.rs.aside
echo "== (1) suite with patch (expect ok)"; cargo test --workspace --no-fail-fast --offline 2>&1 | grep -E "^test result|FAILED|tests passed|failed" | head -8
mv /tmp/$DEMO.rs.aside tests/$DEMO.rs
git checkout -q -- src
echo "== (3) demo without patch (expect ok)"; cargo test --offline --test $DEMO 2>&1 | grep -E "^test result|panicked" | head -3
git apply /tmp/vm_$DEMO.diff
