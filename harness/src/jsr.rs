//! Registry worlds: a loader serving package metadata, version manifests and package files
//! (with real SHA-256 checksums), a logging locker and reporter, the instrumented build, and
//! the `record-jsr` / `gen-jsr` commands.
use crate::ops::InlineExecutor;
use crate::project::*;
use crate::world::*;
use deno_graph::packages::*;
use deno_graph::source::*;
use deno_graph::*;
use deno_semver::package::PackageNv;
use deno_semver::package::PackageReq;
use serde_json::Value;
use serde_json::json;
use std::cell::RefCell;
use std::collections::HashMap;
use std::rc::Rc;
use std::str::FromStr;
use std::sync::Arc;
use std::sync::Mutex;

pub const JSR: &str = "https://jsr.io/";

/// canonical text of a package requirement: requirements are compared by their normalised range
pub fn req_key(r: &PackageReq) -> String {
  format!("{}@{}", r.name, r.version_req.to_string_normalized())
}

pub fn sha(bytes: &[u8]) -> String {
  LoaderChecksum::r#gen(bytes)
}

pub type Events = Rc<RefCell<Vec<Value>>>;
pub static SEQ: std::sync::atomic::AtomicUsize = std::sync::atomic::AtomicUsize::new(0);
pub fn next_seq() -> usize {
  SEQ.fetch_add(1, std::sync::atomic::Ordering::SeqCst)
}

/// What the loader serves for a URL (content only; redirects etc. come from `World::mods`).
pub struct Registry<'a> {
  pub world: &'a World,
  /// url -> (bytes served, bytes the manifest was computed from)
  pub info_cache: RefCell<HashMap<String, Value>>,
}

impl<'a> Registry<'a> {
  pub fn new(world: &'a World) -> Self {
    Self { world, info_cache: Default::default() }
  }

  pub fn honest_bytes(&self, id: &str) -> Vec<u8> {
    self.world.render(id).into_bytes()
  }

  pub fn served_bytes(&self, id: &str, tamper: Option<&str>) -> Vec<u8> {
    let mut b = self.honest_bytes(id);
    if tamper == Some("bytes") {
      b.extend_from_slice(b"\n// tampered\n");
    }
    b
  }

  pub fn package_meta(&self, name: &str) -> Option<Vec<u8>> {
    let pkg = self.world.registry.get(name)?;
    let mut versions = serde_json::Map::new();
    for (v, pv) in &pkg.versions {
      let mut o = serde_json::Map::new();
      if pv.yanked {
        o.insert("yanked".into(), json!(true));
      }
      match pv.date.as_str() {
        "old" => {
          o.insert("createdAt".into(), json!("2020-01-01T00:00:00Z"));
        }
        "new" => {
          o.insert("createdAt".into(), json!("2030-01-01T00:00:00Z"));
        }
        _ => {}
      }
      versions.insert(v.clone(), Value::Object(o));
    }
    Some(serde_json::to_vec(&json!({"versions": versions})).unwrap())
  }

  pub fn module_info_json(&self, id: &str) -> Option<Value> {
    let url = self.world.url_of(id);
    if let Some(v) = self.info_cache.borrow().get(&url) {
      return Some(v.clone());
    }
    let spec = ModuleSpecifier::parse(&url).ok()?;
    let mt = MediaType::from_specifier(&spec);
    let text: Arc<str> = String::from_utf8(self.honest_bytes(id)).ok()?.into();
    let parser = deno_graph::ast::DefaultEsParser;
    let analyzer = deno_graph::ast::ParserModuleAnalyzer::new(&parser);
    let info = analyzer.analyze_sync(&spec, text, mt).ok()?;
    let v = serde_json::to_value(&info).ok()?;
    self.info_cache.borrow_mut().insert(url, v.clone());
    Some(v)
  }

  pub fn version_meta(&self, name: &str, version: &str) -> Option<Vec<u8>> {
    let pv = self.world.registry.get(name)?.versions.get(version)?;
    let mut manifest = serde_json::Map::new();
    let mut graph2 = serde_json::Map::new();
    for (path, id) in &pv.files {
      let t = pv.tamper.get(path).map(|s| s.as_str());
      if t != Some("nomanifest") {
        let b = self.honest_bytes(id);
        let sum = if t == Some("badsum") { format!("md5-{}", &sha(&b)[..32]) } else { format!("sha256-{}", sha(&b)) };
        manifest.insert(path.clone(), json!({"size": b.len(), "checksum": sum}));
      }
      if pv.info != "none"
        && self.world.mods.get(id).map(|m| m.k == "mod").unwrap_or(false)
        && let Some(mi) = self.module_info_json(id)
      {
        graph2.insert(path.clone(), mi);
      }
    }
    let mut o = serde_json::Map::new();
    o.insert("exports".into(), pv.exports.clone());
    o.insert("manifest".into(), Value::Object(manifest));
    if pv.info == "v2" {
      o.insert("moduleGraph2".into(), Value::Object(graph2));
    } else if pv.info == "v1" {
      o.insert("moduleGraph1".into(), Value::Object(graph2_to_1(graph2)));
    }
    if let Some(l) = &pv.lockfile_checksum {
      o.insert("lockfileChecksum".into(), json!(l));
    }
    Some(serde_json::to_vec(&Value::Object(o)).unwrap())
  }
}

/// Rewrites moduleGraph2 module infos into the older moduleGraph1 form: a dependency's
/// `typesSpecifier` becomes a `leadingComments` entry carrying the `@deno-types` pragma.
fn graph2_to_1(g2: serde_json::Map<String, Value>) -> serde_json::Map<String, Value> {
  let mut out = serde_json::Map::new();
  for (path, mut info) in g2 {
    if let Some(deps) = info.get_mut("dependencies").and_then(|d| d.as_array_mut()) {
      for d in deps {
        if let Some(o) = d.as_object_mut()
          && let Some(ts) = o.remove("typesSpecifier")
        {
          let text = ts["text"].as_str().unwrap_or("").to_string();
          let range = ts["range"].clone();
          // v1 stores the whole leading comment: ` @deno-types="<text>"` starting two characters after `//`.
          // module_graph_1_to_2 recomputes the specifier range (quotes included) as
          //   comment.start + 2 + offset_of_text_in_comment - 1, with offset 14 for this comment text,
          // so the comment starts 15 columns before the opening quote.
          let line = range[0][0].as_u64().unwrap_or(0);
          let start_col = range[0][1].as_u64().unwrap_or(0);
          let end_col = range[1][1].as_u64().unwrap_or(0);
          let comment_col = start_col.saturating_sub(15);
          o.insert(
            "leadingComments".into(),
            json!([{"text": format!(" @deno-types=\"{text}\""), "range": [[line, comment_col], [line, end_col]]}]),
          );
        }
      }
    }
    out.insert(path, info);
  }
  out
}

pub struct FullLoader<'a> {
  pub restarted: std::cell::Cell<bool>,
  pub restart_seen: std::cell::Cell<bool>,
  pub first_root: RefCell<Option<String>>,
  pub world: &'a World,
  pub reg: Registry<'a>,
  pub inner: WorldLoader<'a>,
  pub events: Events,
  /// url -> (package name, version, path) for registry files
  pub files: HashMap<String, (String, String, String)>,
}

impl<'a> FullLoader<'a> {
  pub fn new(world: &'a World, events: Events) -> Self {
    let mut files = HashMap::new();
    for (name, pkg) in &world.registry {
      for (v, pv) in &pkg.versions {
        for (path, id) in &pv.files {
          files.insert(world.url_of(id), (name.clone(), v.clone(), path.clone()));
          let _ = id;
        }
      }
    }
    Self { restarted: Default::default(), restart_seen: Default::default(), first_root: Default::default(), world, reg: Registry::new(world), inner: WorldLoader::new(world), events, files }
  }

  fn meta_kind(&self, url: &str) -> Option<(String, Option<String>)> {
    let rest = url.strip_prefix(JSR)?;
    let rest = rest.strip_suffix("meta.json")?;
    // "@s/a/" or "@s/a/1.0.0_"
    let parts: Vec<&str> = rest.split('/').collect();
    if parts.len() != 3 {
      return None;
    }
    let name = format!("{}/{}", parts[0], parts[1]);
    if parts[2].is_empty() {
      Some((name, None))
    } else {
      Some((name, Some(parts[2].strip_suffix('_')?.to_string())))
    }
  }

  fn check(&self, options: &LoadOptions, bytes: &[u8]) -> Result<(), LoadError> {
    if let Some(c) = &options.maybe_checksum {
      c.check_source(bytes).map_err(LoadError::ChecksumIntegrity)?;
    }
    Ok(())
  }

  fn respond(&self, specifier: &ModuleSpecifier, options: &LoadOptions) -> LoadResult {
    let url = specifier.as_str();
    let only = options.cache_setting == CacheSetting::Only;
    let module = |bytes: Vec<u8>| {
      Ok(Some(LoadResponse::Module { content: Arc::from(bytes), mtime: None, specifier: specifier.clone(), maybe_headers: None }))
    };
    let fail = || Err(LoadError::Other(Arc::new(deno_error::JsErrorBox::generic("loader failure"))));
    if let Some((name, maybe_version)) = self.meta_kind(url) {
      let Some(pkg) = self.world.registry.get(&name) else { return Ok(None) };
      match maybe_version {
        None => match pkg.meta.as_str() {
          "missing" => Ok(None),
          "err" => fail(),
          "garbage" => module(b"{not json".to_vec()),
          _ => {
            let b = self.reg.package_meta(&name).unwrap();
            self.check(options, &b)?;
            module(b)
          }
        },
        Some(v) => {
          let Some(pv) = pkg.versions.get(&v) else { return Ok(None) };
          if only && !pv.meta_cached {
            return Ok(None);
          }
          match pv.meta.as_str() {
            "missing" => Ok(None),
            "err" => fail(),
            "garbage" => module(b"[1,2".to_vec()),
            _ => {
              let b = self.reg.version_meta(&name, &v).unwrap();
              // a manifest carrying `lockfileChecksum` comes from a vendor folder, where the loader
              // does not verify checksums (see the Loader documentation)
              if pv.lockfile_checksum.is_none() {
                self.check(options, &b)?;
              }
              module(b)
            }
          }
        }
      }
    } else if let Some((name, v, path)) = self.files.get(url) {
      let pv = &self.world.registry[name].versions[v];
      if only && !pv.cached.contains(path) {
        return Ok(None);
      }
      let id = &pv.files[path];
      let resp = &self.world.mods[id];
      if resp.k != "mod" {
        return self.inner.respond(specifier);
      }
      let t = pv.tamper.get(path).map(|s| s.as_str());
      // faults of the content load proper (the manifest and its embedded module information stay intact)
      if !only {
        match t {
          Some("content-missing") => return Ok(None),
          Some("content-err") => return fail(),
          Some("content-external") => return Ok(Some(LoadResponse::External { specifier: specifier.clone() })),
          Some("content-redirect") => {
            let other = pv.files.values().find(|x| *x != id).unwrap_or(id);
            return Ok(Some(LoadResponse::Redirect { specifier: self.world.spec_of(other) }));
          }
          _ => {}
        }
      }
      let b = self.reg.served_bytes(id, t);
      self.check(options, &b)?;
      module(b)
    } else {
      // a URL that redirects today while the loader's cache still holds the module it used to serve: `Use` answers
      // from the cache (outdated bytes), `Reload` with the redirect
      if let Some(id) = self.inner.by_url.get(url)
        && self.world.mods[id].k == "redirect"
        && self.world.mods[id].stale
        && options.cache_setting != CacheSetting::Reload
      {
        let b: Arc<[u8]> = Arc::from(b"// outdated cached copy\nexport {};\n".to_vec());
        self.check(options, &b)?;
        return Ok(Some(LoadResponse::Module { content: b, mtime: None, specifier: specifier.clone(), maybe_headers: None }));
      }
      // plain URL world entry; verify a presented checksum against the bytes served
      let mut r = self.inner.respond(specifier)?;
      if let Some(LoadResponse::Module { content, .. }) = &mut r {
        let stale = self.inner.by_url.get(url).map(|id| self.world.mods[id].stale).unwrap_or(false);
        if stale && options.cache_setting != CacheSetting::Reload {
          let mut b = content.to_vec();
          b.extend_from_slice(b"\n// stale copy\n");
          *content = Arc::from(b);
        }
        self.check(options, content)?;
      }
      Ok(r)
    }
  }
}

impl Loader for FullLoader<'_> {
  fn load(&self, specifier: &ModuleSpecifier, options: LoadOptions) -> LoadFuture {
    let setting = match options.cache_setting {
      CacheSetting::Only => "only",
      CacheSetting::Use => "use",
      CacheSetting::Reload => "reload",
    };
    let r = self.respond(specifier, &options);
    let (cls, sum) = match &r {
      Ok(Some(LoadResponse::Module { content, .. })) => ("module", Some(sha(content))),
      Ok(Some(LoadResponse::Redirect { .. })) => ("redirect", None),
      Ok(Some(LoadResponse::External { .. })) => ("external", None),
      Ok(None) => ("none", None),
      Err(LoadError::ChecksumIntegrity(_)) => ("integrity", None),
      Err(_) => ("err", None),
    };
    let (meta, mname, mver) = match self.meta_kind(specifier.as_str()) {
      Some((n, None)) => ("pkg", n, String::new()),
      Some((n, Some(v))) => ("ver", n, v),
      None => ("", String::new(), String::new()),
    };
    // a root specifier loaded a second time marks the full restart of the build (Builder::restart)
    let is_root = self.world.roots.iter().any(|r| self.world.url_of(r) == specifier.as_str());
    let restart = is_root && self.restarted.replace(true) && !self.restart_seen.replace(true) && self.first_root.borrow().as_deref() == Some(specifier.as_str());
    if is_root && self.first_root.borrow().is_none() {
      *self.first_root.borrow_mut() = Some(specifier.to_string());
    }
    self.events.borrow_mut().push(json!({
      "ev": "load", "seq": next_seq(), "meta": meta, "mname": mname, "mver": mver, "restart": restart,
      "s": self.world.id_of(specifier.as_str()), "setting": setting,
      "sum": options.maybe_checksum.as_ref().map(|c| c.as_str().to_string()).unwrap_or_default(),
      "dyn": options.in_dynamic_branch, "resp": cls, "served": sum.unwrap_or_default(),
    }));
    Box::pin(async move { r })
  }
}

pub struct LogLocker<'a> {
  pub world: &'a World,
  pub remote: HashMap<String, String>,
  pub pkgs: HashMap<String, String>,
  pub events: Events,
}

impl<'a> LogLocker<'a> {
  pub fn new(world: &'a World, events: Events) -> Self {
    let reg = Registry::new(world);
    let mut remote = HashMap::new();
    for (id, how) in &world.lock.remote {
      let honest = sha(&reg.honest_bytes(id));
      remote.insert(world.url_of(id), if how == "match" { honest } else { "0".repeat(64) });
    }
    let mut pkgs = HashMap::new();
    for (nv, how) in &world.lock.pkg {
      let (name, v) = nv.rsplit_once('@').unwrap();
      let honest = reg.version_meta(name, v).map(|b| sha(&b)).unwrap_or_default();
      pkgs.insert(nv.clone(), if how == "match" { honest } else { "1".repeat(64) });
    }
    Self { world, remote, pkgs, events }
  }
}

impl Locker for LogLocker<'_> {
  fn get_remote_checksum(&self, specifier: &ModuleSpecifier) -> Option<LoaderChecksum> {
    let r = self.remote.get(specifier.as_str()).cloned();
    self.events.borrow_mut().push(json!({"ev": "lock_get", "seq": next_seq(), "s": self.world.id_of(specifier.as_str()), "sum": r.clone().unwrap_or_default()}));
    r.map(LoaderChecksum::new)
  }
  fn has_remote_checksum(&self, specifier: &ModuleSpecifier) -> bool {
    self.remote.contains_key(specifier.as_str())
  }
  fn set_remote_checksum(&mut self, specifier: &ModuleSpecifier, checksum: LoaderChecksum) {
    let had = self.remote.get(specifier.as_str()).cloned();
    self.events.borrow_mut().push(json!({"ev": "lock_set", "seq": next_seq(), "s": self.world.id_of(specifier.as_str()), "sum": checksum.as_str(), "had": had.unwrap_or_default()}));
    self.remote.insert(specifier.to_string(), checksum.into_string());
  }
  fn get_pkg_manifest_checksum(&self, nv: &PackageNv) -> Option<LoaderChecksum> {
    self.pkgs.get(&nv.to_string()).cloned().map(LoaderChecksum::new)
  }
  fn set_pkg_manifest_checksum(&mut self, nv: &PackageNv, checksum: LoaderChecksum) {
    let had = self.pkgs.get(&nv.to_string()).cloned();
    self.events.borrow_mut().push(json!({"ev": "lock_set_pkg", "seq": next_seq(), "nv": nv.to_string(), "sum": checksum.as_str(), "had": had.unwrap_or_default()}));
    self.pkgs.insert(nv.to_string(), checksum.into_string());
  }
}

#[derive(Debug, Default)]
pub struct LogReporter {
  pub events: Mutex<Vec<Value>>,
}

impl Reporter for LogReporter {
  fn on_load(&self, specifier: &ModuleSpecifier, done: usize, total: usize) {
    self.events.lock().unwrap().push(json!({"ev": "on_load", "seq": next_seq(), "s": specifier.as_str(), "done": done, "total": total}));
  }
  fn on_resolve(&self, req: &PackageReq, nv: &PackageNv) {
    self.events.lock().unwrap().push(json!({"ev": "jsr_resolved", "seq": next_seq(), "req": req_key(req), "name": nv.name.to_string(), "v": nv.version.to_string()}));
  }
}

pub struct FullBuild {
  pub graph: ModuleGraph,
  pub events: Vec<Value>,
  pub resolved: Vec<Value>,
  pub lock_remote: HashMap<String, String>,
  pub lock_pkgs: HashMap<String, String>,
}

pub fn version_resolver(world: &World) -> JsrVersionResolver {
  JsrVersionResolver {
    newest_dependency_date_options: NewestDependencyDateOptions {
      date: world.opts.cutoff.then(|| NewestDependencyDate(chrono::DateTime::from_timestamp(1_735_689_600, 0).unwrap())),
      exclude_jsr_pkgs: world.opts.exclude_pkgs.iter().map(|s| s.as_str().into()).collect(),
      exclude_jsr_pkg_prefixes: world.opts.exclude_prefixes.iter().map(|s| s.as_str().into()).collect(),
    },
  }
}

/// Build with every observation point instrumented. `drive` lets the caller poll the build
/// future itself (schedules); `None` = run to completion.
pub fn build_full(world: &World, kind: GraphKind, roots: &[String]) -> FullBuild {
  build_full_sched(world, kind, roots, None).expect("immediate schedule cannot fail").0
}

/// `pick`: None = loads complete immediately; Some(f) = loads are gated and released by `f`.
pub fn build_full_sched(
  world: &World,
  kind: GraphKind,
  roots: &[String],
  pick: Option<&mut dyn FnMut(usize) -> usize>,
) -> Result<(FullBuild, Vec<usize>), String> {
  let events: Events = Default::default();
  let loader = FullLoader::new(world, events.clone());
  let mut locker = LogLocker::new(world, events.clone());
  let reporter = LogReporter::default();
  let mut graph = ModuleGraph::new(kind);
  // lockfile-seeded version selections
  let seeded: Vec<(deno_semver::jsr::JsrDepPackageReq, String)> = world
    .lock
    .reqs
    .iter()
    .filter_map(|(r, v)| PackageReq::from_str(r).ok().map(|pr| (deno_semver::jsr::JsrDepPackageReq::jsr(pr), v.clone())))
    .collect();
  if !seeded.is_empty() {
    graph.fill_from_lockfile(FillFromLockfileOptions {
      redirects: std::iter::empty(),
      package_specifiers: seeded.iter().map(|(r, v)| (r, v.as_str())),
    });
  }
  let roots: Vec<ModuleSpecifier> = roots.iter().map(|r| ModuleSpecifier::parse(&world.url_of(r)).unwrap()).collect();
  let exec = InlineExecutor;
  let resolver = version_resolver(world);
  let mut picks = vec![];
  {
    let opts = BuildOptions {
      executor: &exec,
      locker: if world.lock.enabled { Some(&mut locker) } else { None },
      reporter: Some(&reporter),
      jsr_version_resolver: std::borrow::Cow::Borrowed(&resolver),
      prefer_cached_jsr_versions: world.opts.prefer_cached,
      unstable_text_imports: true,
      unstable_bytes_imports: true,
      passthrough_jsr_specifiers: world.opts.passthrough_jsr,
      ..Default::default()
    };
    match pick {
      None => {
        futures::executor::block_on(graph.build(roots, vec![], &loader, opts));
      }
      Some(pick) => {
        let gated = crate::sched::GatedLoader::new(&loader);
        let fut = Box::pin(graph.build(roots, vec![], &gated, opts));
        let (_, p) = crate::sched::drive(fut, &gated, pick, 100_000)?;
        picks = p;
      }
    }
  }
  let resolved: Vec<Value> = reporter.events.lock().unwrap().iter().cloned().collect();
  let lock_remote = locker.remote.clone();
  let lock_pkgs = locker.pkgs.clone();
  drop(loader);
  drop(locker);
  let events = Rc::try_unwrap(events).map(|c| c.into_inner()).unwrap_or_default();
  Ok((FullBuild { graph, events, resolved, lock_remote, lock_pkgs }, picks))
}

/// The observation C04 compares: serialised graph, every error with its range, redirects,
/// package table, lockfile contents.
pub fn observation(world: &World, fb: &FullBuild) -> Value {
  let errors: Vec<String> = fb.graph.module_errors().map(|e| e.to_string_with_range()).collect();
  let mut lr: Vec<(&String, &String)> = fb.lock_remote.iter().collect();
  lr.sort();
  let mut lp: Vec<(&String, &String)> = fb.lock_pkgs.iter().collect();
  lp.sort();
  let _ = world;
  json!({"graph": serde_json::to_value(&fb.graph).unwrap_or(Value::Null), "errors": errors, "pkgs": packages_json(&fb.graph),
         "lockRemote": lr, "lockPkgs": lp})
}

/// Projection of the package table.
pub fn packages_json(g: &ModuleGraph) -> Value {
  let p = &g.packages;
  let mappings: serde_json::Map<String, Value> =
    p.mappings().iter().map(|(r, nv)| (req_key(r), json!({"name": nv.name.to_string(), "v": nv.version.to_string()}))).collect();
  let mut exports = serde_json::Map::new();
  let mut deps = serde_json::Map::new();
  for (nv, ds) in p.packages_with_deps() {
    let mut v: Vec<String> = ds.map(|d| format!("{}:{}", if d.kind == deno_semver::package::PackageKind::Jsr { "jsr" } else { "npm" }, req_key(&d.req))).collect();
    v.sort();
    deps.insert(nv.to_string(), json!(v));
    if let Some(e) = p.package_exports(nv) {
      exports.insert(nv.to_string(), json!(e));
    }
  }
  let mut pc = p.clone();
  let yanked: Vec<String> = pc.used_yanked_packages().map(|n| n.to_string()).collect();
  json!({"mappings": mappings, "exports": exports, "deps": deps, "yanked": yanked})
}

// ------------------------------------------------------------------------------------------
// record-jsr: build registry worlds with full instrumentation and write the trace

fn norm_path(p: &str) -> String {
  let p = p.strip_prefix('.').unwrap_or(p);
  if p.starts_with('/') { p.to_string() } else { format!("/{p}") }
}

/// Facts about the world that the trace specification needs (no oracle results: only data and
/// the requirement-matching table of deno_semver, which is outside the repository).
pub fn world_facts(world: &World) -> Value {
  use deno_semver::Version;
  let mut reg = serde_json::Map::new();
  let mut order = serde_json::Map::new();
  for (name, pkg) in &world.registry {
    let mut vs: Vec<(Version, &String, &PkgVersion)> =
      pkg.versions.iter().filter_map(|(v, pv)| Version::parse_standard(v).ok().map(|x| (x, v, pv))).collect();
    vs.sort_by(|a, b| a.0.cmp(&b.0));
    order.insert(name.clone(), json!(vs.iter().map(|x| x.1.clone()).collect::<Vec<_>>()));
    let mut pv_json = serde_json::Map::new();
    for (_, v, pv) in &vs {
      let exports: serde_json::Map<String, Value> = match &pv.exports {
        Value::String(s) => [(".".to_string(), json!(norm_path(s)))].into_iter().collect(),
        Value::Object(m) => m.iter().filter_map(|(k, x)| x.as_str().map(|s| (k.clone(), json!(norm_path(s))))).collect(),
        _ => Default::default(),
      };
      pv_json.insert((*v).clone(), json!({"yanked": pv.yanked, "date": pv.date, "exports": exports, "files": pv.files,
        "metaCached": pv.meta_cached, "meta": pv.meta, "cached": pv.cached, "tamper": pv.tamper, "info": pv.info}));
    }
    reg.insert(name.clone(), json!({"versions": pv_json, "meta": pkg.meta,
      "exByName": world.opts.exclude_pkgs.contains(name),
      "exByPrefix": world.opts.exclude_prefixes.iter().any(|p| name.starts_with(p.as_str()))}));
  }
  // requirement imports per module, and the matching table
  let mut matches = serde_json::Map::new();
  let mut specs = serde_json::Map::new();
  let mut imports = serde_json::Map::new();
  let mut targets = serde_json::Map::new();
  let mut note_req = |text: &str, matches: &mut serde_json::Map<String, Value>, specs: &mut serde_json::Map<String, Value>| -> Option<Value> {
    let url = ModuleSpecifier::parse(text).ok()?;
    match url.scheme() {
      "jsr" => {
        let r = deno_semver::jsr::JsrPackageReqReference::from_specifier(&url).ok()?;
        let req = r.req();
        let key = req_key(req);
        let mut ok = vec![];
        // versions of the registry and any lock-seeded version
        let mut cands: Vec<String> = world.registry.get(req.name.as_str()).map(|p| p.versions.keys().cloned().collect()).unwrap_or_default();
        for v in world.lock.reqs.values() {
          cands.push(v.clone());
        }
        for v in cands {
          if let Ok(ver) = Version::parse_standard(&v)
            && req.version_req.matches(&ver)
            && !ok.contains(&v)
          {
            ok.push(v);
          }
        }
        matches.insert(key.clone(), json!(ok));
        let export = r.export_name().to_string();
        specs.insert(text.to_string(), json!({"kind": "jsr", "req": key, "name": req.name.to_string(), "export": export, "tag": req.version_req.tag().is_some()}));
        Some(json!({"kind": "jsr", "req": key, "text": text, "dep": format!("jsr:{key}")}))
      }
      "npm" => {
        let r = deno_semver::npm::NpmPackageReqReference::from_specifier(&url).ok()?;
        Some(json!({"kind": "npm", "req": req_key(r.req()), "text": text, "dep": format!("npm:{}", req_key(r.req()))}))
      }
      _ => None,
    }
  };
  for (id, m) in &world.mods {
    let mut rs = vec![];
    for it in &m.items {
      if let Some(raw) = it.t.strip_prefix("raw:")
        && let Some(mut v) = note_req(raw, &mut matches, &mut specs)
      {
        v["dyn"] = json!(it.f == "dynamic");
        v["f"] = json!(it.f);
        rs.push(v);
      }
    }
    imports.insert(id.clone(), json!(rs));
    let ts: Vec<String> = m.items.iter().filter(|it| !it.t.starts_with("raw:")).map(|it| it.t.clone()).collect();
    targets.insert(id.clone(), json!(ts));
  }
  for r in &world.roots {
    if let Some(raw) = r.strip_prefix("raw:") {
      note_req(raw, &mut matches, &mut specs);
    }
  }
  // which package each registry file belongs to
  let mut owner = serde_json::Map::new();
  for (name, pkg) in &world.registry {
    for (v, pv) in &pkg.versions {
      for id in pv.files.values() {
        let path = pv.files.iter().find(|(_, x)| *x == id).map(|(p, _)| p.clone()).unwrap_or_default();
        owner.insert(id.clone(), json!({"name": name, "v": v, "path": path}));
      }
    }
  }
  let seeds: serde_json::Map<String, Value> =
    world.lock.reqs.iter().filter_map(|(r, v)| PackageReq::from_str(r).ok().map(|pr| (req_key(&pr), json!(v)))).collect();
  // total order of every version that can occur for a package (published or lock-seeded)
  let mut rank = serde_json::Map::new();
  let mut seed_by_name = serde_json::Map::new();
  for name in world.registry.keys() {
    let mut all: Vec<Version> = world.registry[name].versions.keys().filter_map(|v| Version::parse_standard(v).ok()).collect();
    let mut seeded = vec![];
    for (r, v) in &world.lock.reqs {
      if let Ok(pr) = PackageReq::from_str(r)
        && pr.name.as_str() == name
        && let Ok(ver) = Version::parse_standard(v)
      {
        seeded.push(v.clone());
        if !all.contains(&ver) {
          all.push(ver);
        }
      }
    }
    all.sort();
    rank.insert(name.clone(), Value::Object(all.iter().enumerate().map(|(i, v)| (v.to_string(), json!(i))).collect()));
    seed_by_name.insert(name.clone(), json!(seeded));
  }
  let reg_h = Registry::new(world);
  let sums: serde_json::Map<String, Value> = world.mods.iter().filter(|(_, m)| m.k == "mod").map(|(id, _)| (id.clone(), json!(sha(&reg_h.honest_bytes(id))))).collect();
  // a redirecting URL whose outdated module is still in the loader's cache can end as a module as well
  let stale_redir: Vec<String> = world.mods.iter().filter(|(_, m)| m.k == "redirect" && m.stale).map(|(id, _)| id.clone()).collect();
  let mut meta_sums = serde_json::Map::new();
  for (name, pkg) in &world.registry {
    for v in pkg.versions.keys() {
      if let Some(b) = reg_h.version_meta(name, v) {
        meta_sums.insert(format!("{name}@{v}"), json!(sha(&b)));
      }
    }
  }
  json!({"rank": rank, "seedByName": seed_by_name, "sums": sums, "staleRedir": stale_redir, "metaSums": meta_sums,
         "reg": reg, "order": order, "matches": matches, "specs": specs, "imports": imports, "targets": targets, "owner": owner, "seeds": seeds,
         "cutoff": world.opts.cutoff, "preferCached": world.opts.prefer_cached, "lockEnabled": world.lock.enabled,
         "lockRemote": world.lock.remote, "lockPkg": world.lock.pkg})
}

pub fn record_world(idx: usize, world: &World, kinds: &[&str], out: &mut Vec<Value>, problems: &mut Vec<Value>) {
  let facts = world_facts(world);
  for kind in kinds {
    let r = std::panic::catch_unwind(std::panic::AssertUnwindSafe(|| build_full(world, kind_of(kind), &world.roots)));
    match r {
      Err(e) => {
        let msg = if let Some(s) = e.downcast_ref::<String>() { s.clone() } else if let Some(s) = e.downcast_ref::<&str>() { s.to_string() } else { "panic".into() };
        problems.push(json!({"case": idx, "kind": kind, "what": "panic", "msg": msg, "prop": ["C03"]}));
      }
      Ok(fb) => {
        out.push(json!({"ev": "jsrreset", "id": format!("case{idx}/{kind}"), "kind": kind, "facts": facts}));
        // loader / locker / resolution events in program order; resolutions are interleaved by position:
        // the reporter log is separate, so merge by emitting loads first is wrong -- instead the loader
        // log carries markers: a resolution always precedes the version-manifest load it triggers.
        let mut evs: Vec<&Value> = fb.events.iter().chain(fb.resolved.iter()).collect();
        evs.sort_by_key(|e| e["seq"].as_u64().unwrap_or(0));
        for e in evs {
          out.push(e.clone());
        }
        let pend = pending_specifiers(&fb.graph);
        if !pend.is_empty() {
          problems.push(json!({"case": idx, "kind": kind, "what": "pending", "specs": pend, "prop": ["C03"]}));
        }
        let mut lock_remote: Vec<(String, String)> = fb.lock_remote.iter().map(|(k, v)| (world.id_of(k), v.clone())).collect();
        lock_remote.sort();
        out.push(json!({"ev": "jsrbuilt", "g": graph_json(world, &fb.graph), "pkgs": packages_json(&fb.graph),
          "lockRemote": lock_remote.into_iter().map(|(k, v)| (k, json!(v))).collect::<serde_json::Map<String, Value>>(),
          "lockPkgs": fb.lock_pkgs}));
      }
    }
  }
}

// ------------------------------------------------------------------------------------------
// gen-jsr: seeded random registry worlds
use rand::Rng;
use rand::rngs::StdRng;
use rand::seq::SliceRandom;

pub fn gen_world(rng: &mut StdRng, faults: bool) -> World {
  let names = ["@s/a", "@s/ab", "@t/c"];
  let all_versions = ["1.0.0", "1.1.0", "1.2.0", "2.0.0-rc.1", "2.0.0"];
  let reqs = ["1", "^1.1.0", "1.1.0", "~1.0", "*", "2", "^2.0.0-rc.1", "3", "1.2", "^1"];
  let npkgs = rng.gen_range(1..=3);
  let mut world = World {
    mods: Default::default(), roots: vec![], ext: Default::default(), sch: Default::default(), urls: Default::default(),
    registry: Default::default(), lock: Default::default(), opts: Default::default(), npm: Default::default(), imports: vec![],
  };
  let mut pkg_names: Vec<&str> = names.to_vec();
  pkg_names.shuffle(rng);
  let pkg_names: Vec<&str> = pkg_names.into_iter().take(npkgs).collect();
  let jsr_spec = |rng: &mut StdRng, pkgs: &[&str]| -> String {
    let n = pkgs[rng.gen_range(0..pkgs.len())];
    let r = reqs[rng.gen_range(0..reqs.len())];
    let sub = match rng.gen_range(0..6) { 0 | 1 => "/sub", 2 => "/nope", _ => "" };
    format!("raw:jsr:{n}@{r}{sub}")
  };
  // first pass: ids of files
  let mut file_ids: Vec<(String, String, String)> = vec![]; // (name, version, id)
  for name in &pkg_names {
    let mut pkg = Pkg { versions: Default::default(), meta: "ok".into() };
    let nv = rng.gen_range(1..=3);
    let mut vs: Vec<&str> = all_versions.to_vec();
    vs.shuffle(rng);
    for v in vs.into_iter().take(nv) {
      let mut pv = PkgVersion { date: ["none", "old", "new"][rng.gen_range(0..3)].into(), meta: "ok".into(), info: "none".into(), ..Default::default() };
      pv.yanked = rng.gen_bool(0.2);
      let two = rng.gen_bool(0.6);
      pv.exports = if two { json!({".": "./mod.ts", "./sub": "./sub.ts"}) } else { json!("./mod.ts") };
      let short = name.replace(['@', '/'], "");
      for path in ["/mod.ts", "/sub.ts", "/dep.ts"] {
        if path == "/sub.ts" && !two && rng.gen_bool(0.5) {
          continue;
        }
        let id = format!("{short}_{}{}", v.replace(['.', '-'], "_"), path.replace(['/', '.'], "_"));
        world.urls.insert(id.clone(), format!("{JSR}{name}/{v}{path}"));
        world.ext.insert(id.clone(), "ts".into());
        world.sch.insert(id.clone(), "https".into());
        pv.files.insert(path.to_string(), id.clone());
        file_ids.push((name.to_string(), v.to_string(), id));
      }
      pv.info = if rng.gen_bool(0.5) { "v2".into() } else { "none".into() };
      for p in pv.files.keys() {
        if rng.gen_bool(0.3) {
          pv.cached.push(p.clone());
        }
      }
      pv.meta_cached = rng.gen_bool(0.4);
      if faults {
        for p in pv.files.keys().cloned().collect::<Vec<_>>() {
          match rng.gen_range(0..18) {
            0 => { pv.tamper.insert(p, "bytes".into()); }
            1 => { pv.tamper.insert(p, "nomanifest".into()); }
            2 => { pv.tamper.insert(p, "badsum".into()); }
            3 => { pv.tamper.insert(p, "content-missing".into()); }
            4 => { pv.tamper.insert(p, "content-err".into()); }
            5 => { pv.tamper.insert(p, "content-redirect".into()); }
            6 => { pv.tamper.insert(p, "content-external".into()); }
            _ => {}
          }
        }
        match rng.gen_range(0..20) { 0 => pv.meta = "missing".into(), 1 => pv.meta = "err".into(), 2 => pv.meta = "garbage".into(), _ => {} }
        if rng.gen_bool(0.1) {
          pv.lockfile_checksum = Some("c".repeat(64));
        }
      }
      pkg.versions.insert(v.to_string(), pv);
    }
    if faults {
      match rng.gen_range(0..25) { 0 => pkg.meta = "missing".into(), 1 => pkg.meta = "err".into(), 2 => pkg.meta = "garbage".into(), _ => {} }
    }
    world.registry.insert(name.to_string(), pkg);
  }
  // second pass: module contents
  let forms = ["static", "static", "export", "dynamic"];
  for (name, v, id) in &file_ids {
    let mut items = vec![];
    for _ in 0..rng.gen_range(0..=2) {
      let f = forms[rng.gen_range(0..forms.len())].to_string();
      let t = match rng.gen_range(0..6) {
        0 | 1 => {
          // sibling file of the same version
          let sibs: Vec<&String> = file_ids.iter().filter(|x| &x.0 == name && &x.1 == v && &x.2 != id).map(|x| &x.2).collect();
          if sibs.is_empty() { continue } else { sibs[rng.gen_range(0..sibs.len())].clone() }
        }
        2 | 3 => jsr_spec(rng, &pkg_names),
        4 => format!("raw:npm:{}@{}", ["chalk", "left-pad"][rng.gen_range(0..2)], ["5", "^1.0.0"][rng.gen_range(0..2)]),
        _ => {
          // https URL straight into the registry (another package's file)
          let o = &file_ids[rng.gen_range(0..file_ids.len())];
          o.2.clone()
        }
      };
      let a = if f != "export" && !t.starts_with("raw:") && rng.gen_bool(0.12) { "text" } else { "none" };
      items.push(Item { t, sp: "0".into(), f, a: a.into(), tt: "-".into() });
    }
    let k = if faults && rng.gen_range(0..12) == 0 { ["missing", "err", "redirect", "external"][rng.gen_range(0..4)] } else { "mod" };
    let to = if k == "redirect" { file_ids[rng.gen_range(0..file_ids.len())].2.clone() } else { String::new() };
    world.mods.insert(id.clone(), Resp { k: k.into(), items, st: "-".into(), to, src: None, headers: None, fin: None, ht: None, stale: false });
  }
  // root
  let mut items = vec![];
  for _ in 0..rng.gen_range(1..=3) {
    let f = forms[rng.gen_range(0..forms.len())].to_string();
    items.push(Item { t: jsr_spec(rng, &pkg_names), sp: "0".into(), f, a: "none".into(), tt: "-".into() });
  }
  if rng.gen_bool(0.3) && !file_ids.is_empty() {
    items.push(Item { t: file_ids[rng.gen_range(0..file_ids.len())].2.clone(), sp: "0".into(), f: "static".into(), a: "none".into(), tt: "-".into() });
  }
  // plain remote modules (lockfile checksums, stale caches, redirects of checksummed urls, declaration files)
  let nremote = rng.gen_range(0..=3);
  let rids = ["h1", "h2", "h3"];
  for (i, id) in rids.iter().enumerate().take(nremote) {
    let ext = if rng.gen_bool(0.2) { "dts" } else if rng.gen_bool(0.3) { "js" } else { "ts" };
    world.ext.insert(id.to_string(), ext.into());
    world.sch.insert(id.to_string(), "https".into());
    let mut its = vec![];
    if i + 1 < nremote && rng.gen_bool(0.5) {
      its.push(Item { t: rids[i + 1].to_string(), sp: "0".into(), f: "static".into(), a: "none".into(), tt: "-".into() });
    }
    let k = if faults { match rng.gen_range(0..10) { 0 => "missing", 1 => "err", 2 if i + 1 < nremote => "redirect", _ => "mod" } } else { "mod" };
    let to = if k == "redirect" { rids[i + 1].to_string() } else { String::new() };
    world.mods.insert(id.to_string(), Resp { k: k.into(), items: its, st: "-".into(), to, src: None, headers: None, fin: None, ht: None, stale: faults && rng.gen_bool(0.25) });
    let f = forms[rng.gen_range(0..forms.len())].to_string();
    // asset imports (`with { type: "text" | "bytes" }`) go through Loader::ensure_cached
    let a = if f != "export" && rng.gen_bool(0.3) { ["text", "bytes"][rng.gen_range(0..2)] } else { "none" };
    items.push(Item { t: id.to_string(), sp: "0".into(), f, a: a.into(), tt: "-".into() });
  }
  world.mods.insert("r".into(), Resp { k: "mod".into(), items, st: "-".into(), to: String::new(), src: None, headers: None, fin: None, ht: None, stale: false });
  world.ext.insert("r".into(), "ts".into());
  world.sch.insert("r".into(), "file".into());
  world.roots.push("r".into());
  // options
  world.opts.cutoff = rng.gen_bool(0.35);
  if rng.gen_bool(0.2) {
    world.opts.exclude_pkgs.push(["@s/a", "@s/ab", "@s/abc"][rng.gen_range(0..3)].into());
  }
  if rng.gen_bool(0.2) {
    world.opts.exclude_prefixes.push(["@s/", "@t/", "@s/ab"][rng.gen_range(0..3)].into());
  }
  world.opts.prefer_cached = rng.gen_bool(0.3);
  world.lock.enabled = rng.gen_bool(0.6);
  if world.lock.enabled {
    for (name, pkg) in &world.registry {
      for v in pkg.versions.keys() {
        match rng.gen_range(0..6) { 0 | 1 => { world.lock.pkg.insert(format!("{name}@{v}"), "match".into()); } 2 if faults => { world.lock.pkg.insert(format!("{name}@{v}"), "wrong".into()); } _ => {} }
      }
    }
  }
  if world.lock.enabled {
    for id in rids.iter().take(nremote) {
      match rng.gen_range(0..4) { 0 | 1 => { world.lock.remote.insert(id.to_string(), "match".into()); } 2 if faults => { world.lock.remote.insert(id.to_string(), "wrong".into()); } _ => {} }
    }
  }
  if rng.gen_bool(0.25) {
    let n = pkg_names[rng.gen_range(0..pkg_names.len())];
    let r = reqs[rng.gen_range(0..reqs.len())];
    let v = ["1.0.0", "1.1.0", "1.5.0", "2.0.0"][rng.gen_range(0..4)];
    world.lock.reqs.insert(format!("{n}@{r}"), v.into());
  }
  world
}


// ------------------------------------------------------------------------------------------
// C13: worlds for "manifest shortcut equals parsing": one package, files of mixed media types
// exercising every serialised field of ModuleInfo
pub fn gen_info_world(rng: &mut StdRng) -> World {
  let mut world = World {
    mods: Default::default(), roots: vec![], ext: Default::default(), sch: Default::default(), urls: Default::default(),
    registry: Default::default(), lock: Default::default(), opts: Default::default(), npm: Default::default(), imports: vec![],
  };
  let name = "@s/p";
  let v = "1.0.0";
  let exts = ["ts", "ts", "js", "tsx", "dts", "jsx"];
  let nfiles = rng.gen_range(3..=6);
  let mut ids: Vec<(String, String)> = vec![];
  let mut pv = PkgVersion { date: "none".into(), meta: "ok".into(), info: "none".into(), ..Default::default() };
  for i in 0..nfiles {
    let ext = if i == 0 { "ts" } else { exts[rng.gen_range(0..exts.len())] };
    let id = format!("f{i}");
    let file = if ext == "dts" { format!("/f{i}.d.ts") } else { format!("/f{i}.{ext}") };
    world.urls.insert(id.clone(), format!("{JSR}{name}/{v}{file}"));
    world.ext.insert(id.clone(), ext.into());
    world.sch.insert(id.clone(), "https".into());
    pv.files.insert(file, id.clone());
    ids.push((id, ext.to_string()));
  }
  pv.exports = json!({".": "./f0.ts"});
  for (i, (id, ext)) in ids.iter().enumerate() {
    let mut items = vec![];
    let typed = matches!(ext.as_str(), "ts" | "tsx" | "dts");
    let forms: Vec<&str> = match ext.as_str() {
      "dts" => vec!["static", "export", "type"],
      "js" | "jsx" => vec!["static", "sidefx", "export", "dynamic", "jsdoc"],
      _ => vec!["static", "sidefx", "export", "dynamic", "type"],
    };
    for _ in 0..rng.gen_range(0..=3) {
      let f = forms[rng.gen_range(0..forms.len())];
      let t = match rng.gen_range(0..8) {
        0 => "raw:npm:chalk@5".to_string(),
        1 => "!bad".to_string(),
        2 => "raw:./missing.ts".to_string(),
        _ => ids[rng.gen_range(0..ids.len())].0.clone(),
      };
      let mut it = Item { t, sp: ["0", "0", "1"][rng.gen_range(0..3)].into(), f: f.into(), a: "none".into(), tt: "-".into() };
      if it.t.starts_with("raw:") || it.t == "!bad" {
        it.sp = "0".into();
      }
      // asset imports of package files (the file may or may not also be imported as a module elsewhere)
      if matches!(f, "static" | "dynamic") && !it.t.starts_with("raw:") && it.t != "!bad" && rng.gen_bool(0.15) {
        it.a = ["text", "bytes"][rng.gen_range(0..2)].into();
      }
      if f == "static" && it.a == "none" && rng.gen_bool(0.25) {
        let tt = &ids[rng.gen_range(0..ids.len())].0;
        if tt != &it.t {
          it.tt = tt.clone();
        }
      }
      items.push(it);
    }
    let st = if !typed && rng.gen_bool(0.3) { ids[rng.gen_range(0..ids.len())].0.clone() } else { "-".to_string() };
    let st = if st == *id { "-".to_string() } else { st };
    let _ = i;
    world.mods.insert(id.clone(), Resp { k: "mod".into(), items, st, to: String::new(), src: None, headers: None, fin: None, ht: None, stale: false });
  }
  let mut pkg = Pkg { versions: Default::default(), meta: "ok".into() };
  pkg.versions.insert(v.into(), pv);
  world.registry.insert(name.into(), pkg);
  world.mods.insert("r".into(), Resp { k: "mod".into(), items: vec![Item { t: "raw:jsr:@s/p@1".into(), sp: "0".into(), f: "static".into(), a: "none".into(), tt: "-".into() }],
    st: "-".into(), to: String::new(), src: None, headers: None, fin: None, ht: None, stale: false });
  world.ext.insert("r".into(), "ts".into());
  world.sch.insert("r".into(), "file".into());
  world.roots.push("r".into());
  world
}
