//! Fast check: workspace-member packages as abstract programs, running the real
//! `build_fast_check_type_graph`, and projecting its output (C09-C12).
use deno_ast::swc::ast::*;
use deno_ast::swc::ecma_visit::Visit;
use deno_ast::swc::ecma_visit::VisitWith;
use deno_graph::fast_check::*;
use deno_graph::source::*;
use deno_graph::*;
use indexmap::IndexMap;
use serde::Deserialize;
use serde::Serialize;
use serde_json::Value;
use serde_json::json;
use std::cell::RefCell;
use std::collections::BTreeSet;
use std::collections::HashMap;
use std::sync::Arc;

#[derive(Debug, Clone, Serialize, Deserialize)]
pub struct FcPackage {
  pub name: String,
  pub base: String,
  /// export name -> "./file.ts"
  pub exports: IndexMap<String, String>,
  /// file name ("mod.ts") -> source
  pub files: IndexMap<String, String>,
}

#[derive(Debug, Clone, Serialize, Deserialize)]
pub struct FcWorld {
  pub packages: Vec<FcPackage>,
  /// registry form: the packages are published JSR packages (https://jsr.io/<name>/1.0.0/...), reached from
  /// file:///root.ts which imports the packages named in `root`; cross-package references use jsr: specifiers
  #[serde(default)]
  pub registry: bool,
  #[serde(default)]
  pub root: Vec<String>,
}

impl FcWorld {
  pub fn url(&self, pkg: &FcPackage, file: &str) -> String {
    format!("{}{}", pkg.base, file)
  }
  pub fn id_of(&self, url: &str) -> String {
    url.strip_prefix("file:///").or_else(|| url.strip_prefix("https://jsr.io/@s/")).unwrap_or(url).replace("/1.0.0/", "/")
  }

  /// The same packages published to the registry and consumed from a root module.
  pub fn to_registry(&self) -> FcWorld {
    let mut w = self.clone();
    w.registry = true;
    w.root = w.packages.iter().map(|p| p.name.clone()).collect();
    let dirs: Vec<(String, String)> = self.packages.iter().map(|p| (p.base.trim_start_matches("file:///").trim_end_matches('/').to_string(), p.name.clone())).collect();
    for p in &mut w.packages {
      p.base = format!("https://jsr.io/{}/1.0.0/", p.name);
      for src in p.files.values_mut() {
        for (dir, name) in &dirs {
          *src = src.replace(&format!("\"../{dir}/mod.ts\""), &format!("\"jsr:{name}@1\""));
        }
      }
    }
    w
  }

  pub fn root_source(&self) -> String {
    self.root.iter().enumerate().map(|(i, n)| format!("import * as r{i} from \"jsr:{n}@1\";\nexport const k{i}: typeof r{i} = null as any;\n")).collect()
  }
}

#[derive(Default)]
pub struct MemCache {
  pub items: RefCell<HashMap<u64, FastCheckCacheItem>>,
  pub gets: RefCell<usize>,
  pub hits: RefCell<usize>,
  pub sets: RefCell<usize>,
}
impl FastCheckCache for MemCache {
  fn get(&self, key: FastCheckCacheKey) -> Option<FastCheckCacheItem> {
    *self.gets.borrow_mut() += 1;
    let r = self.items.borrow().get(&key.as_u64()).cloned();
    if r.is_some() {
      *self.hits.borrow_mut() += 1;
    }
    r
  }
  fn set(&self, key: FastCheckCacheKey, value: FastCheckCacheItem) {
    *self.sets.borrow_mut() += 1;
    self.items.borrow_mut().insert(key.as_u64(), value);
  }
}

struct FileLoader {
  files: HashMap<String, String>,
}
impl Loader for FileLoader {
  fn load(&self, specifier: &ModuleSpecifier, _o: LoadOptions) -> LoadFuture {
    let r = self.files.get(specifier.as_str()).map(|t| LoadResponse::Module {
      content: Arc::from(t.clone().into_bytes()),
      mtime: None,
      specifier: specifier.clone(),
      maybe_headers: None,
    });
    Box::pin(async move { Ok(r) })
  }
}

pub fn members(world: &FcWorld) -> Vec<WorkspaceMember> {
  world
    .packages
    .iter()
    .map(|p| WorkspaceMember {
      base: ModuleSpecifier::parse(&p.base).unwrap(),
      name: p.name.as_str().into(),
      version: Some(deno_semver::Version::parse_standard("1.0.0").unwrap()),
      exports: p.exports.clone(),
    })
    .collect()
}

pub fn build_graph(world: &FcWorld) -> ModuleGraph {
  if world.registry {
    return build_graph_registry(world);
  }
  let mut files = HashMap::new();
  let mut roots = vec![];
  for p in &world.packages {
    for (f, src) in &p.files {
      files.insert(world.url(p, f), src.clone());
    }
    for e in p.exports.values() {
      roots.push(ModuleSpecifier::parse(&p.base).unwrap().join(e).unwrap());
    }
  }
  let loader = FileLoader { files };
  let mut g = ModuleGraph::new(GraphKind::All);
  let exec = crate::ops::InlineExecutor;
  futures::executor::block_on(g.build(roots, vec![], &loader, BuildOptions { executor: &exec, ..Default::default() }));
  g
}

fn build_graph_registry(world: &FcWorld) -> ModuleGraph {
  use sha2::Digest;
  let mut files = HashMap::new();
  files.insert("file:///root.ts".to_string(), world.root_source());
  for p in &world.packages {
    let mut manifest = serde_json::Map::new();
    for (f, src) in &p.files {
      files.insert(world.url(p, f), src.clone());
      let mut h = sha2::Sha256::new();
      h.update(src.as_bytes());
      manifest.insert(format!("/{f}"), json!({"size": src.len(), "checksum": format!("sha256-{:x}", h.finalize())}));
    }
    files.insert(format!("https://jsr.io/{}/meta.json", p.name), json!({"versions": {"1.0.0": {}}}).to_string());
    files.insert(format!("https://jsr.io/{}/1.0.0_meta.json", p.name), json!({"exports": p.exports, "manifest": manifest}).to_string());
  }
  let loader = FileLoader { files };
  let mut g = ModuleGraph::new(GraphKind::All);
  let exec = crate::ops::InlineExecutor;
  futures::executor::block_on(g.build(vec![ModuleSpecifier::parse("file:///root.ts").unwrap()], vec![], &loader, BuildOptions { executor: &exec, ..Default::default() }));
  g
}

pub fn run_fast_check(world: &FcWorld, g: &mut ModuleGraph, cache: Option<&MemCache>) {
  if world.registry {
    g.build_fast_check_type_graph(BuildFastCheckTypeGraphOptions {
      fast_check_cache: cache.map(|c| c as &dyn FastCheckCache),
      fast_check_dts: false,
      ..Default::default()
    });
    return;
  }
  let ms = members(world);
  g.build_fast_check_type_graph(BuildFastCheckTypeGraphOptions {
    fast_check_cache: cache.map(|c| c as &dyn FastCheckCache),
    fast_check_dts: false,
    workspace_fast_check: WorkspaceFastCheckOption::Enabled(&ms),
    ..Default::default()
  });
}

// ------------------------------------------------------------------------------------------
// syntactic analysis of a module text (original or emitted)

pub struct Analysis {
  pub top_level: BTreeSet<String>,
  /// exported names; star re-exports as ("*", specifier)
  pub exports: BTreeSet<String>,
  pub stars: Vec<String>,
  pub unresolved: BTreeSet<String>,
  pub erasure: Vec<String>,
  pub decl_kinds: IndexMap<String, String>,
  /// names of `export default interface X` declarations
  pub default_ifaces: BTreeSet<String>,
  /// (specifier, imported or re-exported name) of every named / default import and `export { x } from`
  pub named_refs: Vec<(String, String)>,
  /// every declaration kind of a top-level name, in order (a name may be declared in the value and the type namespace)
  pub kinds_all: IndexMap<String, Vec<String>>,
  pub imported: BTreeSet<String>,
  /// leftmost identifiers of type references / of `typeof` queries and `extends` expressions
  pub type_refs: BTreeSet<String>,
  pub value_refs: BTreeSet<String>,
}

struct NsRefs {
  type_refs: BTreeSet<String>,
  value_refs: BTreeSet<String>,
}
fn leftmost(e: &TsEntityName) -> String {
  match e {
    TsEntityName::Ident(i) => i.sym.to_string(),
    TsEntityName::TsQualifiedName(q) => leftmost(&q.left),
  }
}
impl Visit for NsRefs {
  fn visit_ts_type_ref(&mut self, n: &TsTypeRef) {
    self.type_refs.insert(leftmost(&n.type_name));
    n.visit_children_with(self);
  }
  fn visit_ts_type_query(&mut self, n: &TsTypeQuery) {
    if let TsTypeQueryExpr::TsEntityName(e) = &n.expr_name {
      self.value_refs.insert(leftmost(e));
    }
    n.visit_children_with(self);
  }
  fn visit_ts_expr_with_type_args(&mut self, n: &TsExprWithTypeArgs) {
    if let Expr::Ident(i) = &*n.expr {
      self.type_refs.insert(i.sym.to_string());
    }
    n.visit_children_with(self);
  }
  fn visit_class(&mut self, n: &Class) {
    if let Some(sc) = &n.super_class
      && let Expr::Ident(i) = &**sc
    {
      self.value_refs.insert(i.sym.to_string());
    }
    n.visit_children_with(self);
  }
}

fn pat_names(p: &Pat, out: &mut BTreeSet<String>) {
  match p {
    Pat::Ident(i) => {
      out.insert(i.id.sym.to_string());
    }
    Pat::Array(a) => a.elems.iter().flatten().for_each(|e| pat_names(e, out)),
    Pat::Object(o) => o.props.iter().for_each(|pr| match pr {
      ObjectPatProp::KeyValue(kv) => pat_names(&kv.value, out),
      ObjectPatProp::Assign(a) => {
        out.insert(a.key.sym.to_string());
      }
      ObjectPatProp::Rest(r) => pat_names(&r.arg, out),
    }),
    Pat::Assign(a) => pat_names(&a.left, out),
    Pat::Rest(r) => pat_names(&r.arg, out),
    _ => {}
  }
}

fn decl_names(d: &Decl, out: &mut BTreeSet<String>, kinds: &mut IndexMap<String, String>) {
  let mut put = |n: String, k: &str, out: &mut BTreeSet<String>| {
    // the first declaration of a name decides (fast check may add a merging namespace for expando properties)
    kinds.entry(n.clone()).or_insert_with(|| k.to_string());
    out.insert(n);
  };
  match d {
    Decl::Class(c) => put(c.ident.sym.to_string(), "class", out),
    Decl::Fn(f) => put(f.ident.sym.to_string(), "function", out),
    Decl::Var(v) => {
      let mut ns = BTreeSet::new();
      v.decls.iter().for_each(|x| pat_names(&x.name, &mut ns));
      for n in ns {
        put(n, "var", out);
      }
    }
    Decl::Using(_) => {}
    Decl::TsInterface(i) => put(i.id.sym.to_string(), "interface", out),
    Decl::TsTypeAlias(t) => put(t.id.sym.to_string(), "type", out),
    Decl::TsEnum(e) => put(e.id.sym.to_string(), "enum", out),
    Decl::TsModule(m) => {
      if let TsModuleName::Ident(i) = &m.id {
        put(i.sym.to_string(), "namespace", out)
      }
    }
  }
}

fn export_name(n: &ModuleExportName) -> String {
  match n {
    ModuleExportName::Ident(i) => i.sym.to_string(),
    ModuleExportName::Str(s) => s.value.to_string_lossy().to_string(),
  }
}

struct Unresolved {
  ctxt: deno_ast::swc::common::SyntaxContext,
  names: BTreeSet<String>,
}
impl Visit for Unresolved {
  fn visit_ident(&mut self, n: &Ident) {
    if n.ctxt == self.ctxt {
      self.names.insert(n.sym.to_string());
    }
  }
}

/// C10: the erasure predicate on an emitted module.
#[derive(Default)]
struct Erasure {
  problems: Vec<String>,
  in_init: usize,
}
impl Erasure {
  fn body_ok(&mut self, what: &str, body: &Option<BlockStmt>, is_ctor: bool) {
    if let Some(b) = body {
      let ok = match b.stmts.as_slice() {
        [] => true,
        [Stmt::Return(_)] => !is_ctor,
        [Stmt::Expr(e)] if is_ctor => matches!(&*e.expr, Expr::Call(c) if matches!(c.callee, Callee::Super(_))),
        _ => false,
      };
      if !ok {
        self.problems.push(format!("{what}: body is neither empty nor a single placeholder ({} statements)", b.stmts.len()));
      }
    }
  }
  fn param_ok(&mut self, what: &str, p: &Pat) {
    let typed = match p {
      Pat::Ident(i) => i.type_ann.is_some(),
      Pat::Array(a) => a.type_ann.is_some(),
      Pat::Object(o) => o.type_ann.is_some(),
      Pat::Rest(r) => r.type_ann.is_some(),
      Pat::Assign(_) => true, // a retained default
      _ => false,
    };
    if !typed {
      self.problems.push(format!("{what}: parameter without explicit type or retained default"));
    }
  }
}
impl Visit for Erasure {
  fn visit_module_item(&mut self, n: &ModuleItem) {
    if let ModuleItem::Stmt(s) = n
      && !matches!(s, Stmt::Decl(_))
    {
      self.problems.push("module-level statement that is not a declaration".to_string());
    }
    n.visit_children_with(self);
  }
  fn visit_function(&mut self, n: &Function) {
    self.body_ok("function", &n.body, false);
    for p in &n.params {
      self.param_ok("function", &p.pat);
      if !p.decorators.is_empty() {
        self.problems.push("parameter decorator".into());
      }
    }
    if !n.decorators.is_empty() {
      self.problems.push("function decorator".into());
    }
    n.visit_children_with(self);
  }
  fn visit_fn_decl(&mut self, n: &FnDecl) {
    if n.function.return_type.is_none() && n.function.body.is_some() {
      self.problems.push(format!("function {} without explicit return type", n.ident.sym));
    }
    n.visit_children_with(self);
  }
  fn visit_arrow_expr(&mut self, n: &ArrowExpr) {
    if n.return_type.is_none() {
      self.problems.push("arrow function without explicit return type".into());
    }
    for p in &n.params {
      self.param_ok("arrow", p);
    }
    n.visit_children_with(self);
  }
  fn visit_class_method(&mut self, n: &ClassMethod) {
    if n.function.return_type.is_none() && n.kind != MethodKind::Setter && n.function.body.is_some() {
      self.problems.push("method/getter without explicit return type".into());
    }
    if n.accessibility == Some(Accessibility::Private) {
      self.problems.push("TypeScript-private method kept as a method".into());
    }
    n.visit_children_with(self);
  }
  fn visit_constructor(&mut self, n: &Constructor) {
    self.body_ok("constructor", &n.body, true);
    n.visit_children_with(self);
  }
  fn visit_class_prop(&mut self, n: &ClassProp) {
    if n.accessibility == Some(Accessibility::Private) {
      let any = n.type_ann.as_ref().is_some_and(|t| matches!(&*t.type_ann, TsType::TsKeywordType(k) if k.kind == TsKeywordTypeKind::TsAnyKeyword));
      if !any || n.value.is_some() {
        self.problems.push("TypeScript-private property not reduced to an `any`-typed declaration".into());
      }
    }
    if !n.decorators.is_empty() {
      self.problems.push("property decorator".into());
    }
    if let Some(v) = &n.value {
      self.in_init += 1;
      v.visit_with(self);
      self.in_init -= 1;
    }
  }
  fn visit_private_prop(&mut self, n: &PrivateProp) {
    if &*n.key.name != "private" {
      self.problems.push(format!("ECMAScript-private member #{} survived", n.key.name));
    }
  }
  fn visit_private_method(&mut self, n: &PrivateMethod) {
    self.problems.push(format!("ECMAScript-private method #{} survived", n.key.name));
  }
  fn visit_static_block(&mut self, _n: &StaticBlock) {
    self.problems.push("static block survived".into());
  }
  fn visit_class(&mut self, n: &Class) {
    if !n.decorators.is_empty() {
      self.problems.push("class decorator".into());
    }
    n.visit_children_with(self);
  }
  fn visit_var_declarator(&mut self, n: &VarDeclarator) {
    if let Some(i) = &n.init {
      self.in_init += 1;
      i.visit_with(self);
      self.in_init -= 1;
    }
  }
  fn visit_assign_pat(&mut self, n: &AssignPat) {
    self.in_init += 1;
    n.right.visit_with(self);
    self.in_init -= 1;
  }
  fn visit_expr(&mut self, n: &Expr) {
    if self.in_init > 0 {
      let bad = match n {
        Expr::Call(_) => Some("call"),
        Expr::New(_) => Some("new"),
        Expr::Assign(_) => Some("assignment"),
        Expr::Seq(_) => Some("sequence"),
        Expr::TaggedTpl(_) => Some("tagged template"),
        Expr::Class(_) => Some("class expression"),
        Expr::OptChain(_) => Some("optional chain"),
        Expr::Yield(_) => Some("yield"),
        _ => None,
      };
      if let Some(b) = bad {
        self.problems.push(format!("initialiser / default keeps a {b} expression"));
      }
    }
    n.visit_children_with(self);
  }
}

pub fn analyze(url: &str, text: &str, check_erasure: bool) -> Result<Analysis, String> {
  let spec = ModuleSpecifier::parse(url).map_err(|e| e.to_string())?;
  let parsed = deno_ast::parse_module(deno_ast::ParseParams {
    specifier: spec.clone(),
    text: text.into(),
    media_type: MediaType::from_specifier(&spec),
    capture_tokens: false,
    scope_analysis: true,
    maybe_syntax: None,
  })
  .map_err(|e| e.to_string())?;
  let program = parsed.program();
  let Program::Module(module) = &*program else { return Err("not a module".into()) };
  let mut a = Analysis { top_level: Default::default(), exports: Default::default(), stars: vec![], unresolved: Default::default(), erasure: vec![], decl_kinds: Default::default(), default_ifaces: Default::default(), named_refs: vec![],
    kinds_all: Default::default(), imported: Default::default(), type_refs: Default::default(), value_refs: Default::default() };
  for item in &module.body {
    match item {
      ModuleItem::Stmt(Stmt::Decl(d)) => decl_names(d, &mut a.top_level, &mut a.decl_kinds),
      ModuleItem::Stmt(_) => {}
      ModuleItem::ModuleDecl(md) => match md {
        ModuleDecl::Import(i) => {
          for s in &i.specifiers {
            match s {
              ImportSpecifier::Named(n) => a.named_refs.push((i.src.value.to_string_lossy().into_owned(), n.imported.as_ref().map(export_name).unwrap_or_else(|| n.local.sym.to_string()))),
              ImportSpecifier::Default(_) => a.named_refs.push((i.src.value.to_string_lossy().into_owned(), "default".into())),
              ImportSpecifier::Namespace(_) => {}
            }
            let n = match s {
              ImportSpecifier::Named(n) => n.local.sym.to_string(),
              ImportSpecifier::Default(d) => d.local.sym.to_string(),
              ImportSpecifier::Namespace(n) => n.local.sym.to_string(),
            };
            a.top_level.insert(n);
          }
        }
        ModuleDecl::ExportDecl(e) => {
          let mut ns = BTreeSet::new();
          decl_names(&e.decl, &mut ns, &mut a.decl_kinds);
          a.exports.extend(ns.iter().cloned());
          a.top_level.extend(ns);
        }
        ModuleDecl::ExportNamed(n) => {
          for s in &n.specifiers {
            if let (Some(src), ExportSpecifier::Named(x)) = (&n.src, s) {
              a.named_refs.push((src.value.to_string_lossy().into_owned(), export_name(&x.orig)));
            }
            match s {
              ExportSpecifier::Named(x) => {
                a.exports.insert(x.exported.as_ref().map(export_name).unwrap_or_else(|| export_name(&x.orig)));
              }
              ExportSpecifier::Namespace(x) => {
                a.exports.insert(export_name(&x.name));
              }
              ExportSpecifier::Default(x) => {
                a.exports.insert(x.exported.sym.to_string());
              }
            }
          }
        }
        ModuleDecl::ExportDefaultDecl(d) => {
          a.exports.insert("default".into());
          match &d.decl {
            DefaultDecl::Class(c) => {
              if let Some(i) = &c.ident {
                a.top_level.insert(i.sym.to_string());
              }
            }
            DefaultDecl::Fn(f) => {
              if let Some(i) = &f.ident {
                a.top_level.insert(i.sym.to_string());
              }
            }
            DefaultDecl::TsInterfaceDecl(i) => {
              a.top_level.insert(i.id.sym.to_string());
              a.default_ifaces.insert(i.id.sym.to_string());
            }
          }
        }
        ModuleDecl::ExportDefaultExpr(_) => {
          a.exports.insert("default".into());
        }
        ModuleDecl::ExportAll(e) => a.stars.push(e.src.value.to_string_lossy().to_string()),
        _ => {}
      },
    }
  }
  let mut u = Unresolved { ctxt: parsed.unresolved_context(), names: Default::default() };
  module.visit_with(&mut u);
  a.unresolved = u.names;
  // namespace-aware bookkeeping
  for item in &module.body {
    let d = match item {
      ModuleItem::Stmt(Stmt::Decl(d)) => Some(d),
      ModuleItem::ModuleDecl(ModuleDecl::ExportDecl(e)) => Some(&e.decl),
      ModuleItem::ModuleDecl(ModuleDecl::Import(i)) => {
        for sp in &i.specifiers {
          a.imported.insert(match sp {
            ImportSpecifier::Named(n) => n.local.sym.to_string(),
            ImportSpecifier::Default(d) => d.local.sym.to_string(),
            ImportSpecifier::Namespace(n) => n.local.sym.to_string(),
          });
        }
        None
      }
      _ => None,
    };
    if let Some(d) = d {
      let mut ns = BTreeSet::new();
      let mut ks = IndexMap::new();
      decl_names(d, &mut ns, &mut ks);
      for (n, k) in ks {
        a.kinds_all.entry(n).or_default().push(k);
      }
    }
  }
  let mut nr = NsRefs { type_refs: Default::default(), value_refs: Default::default() };
  module.visit_with(&mut nr);
  a.type_refs = nr.type_refs;
  a.value_refs = nr.value_refs;
  if check_erasure {
    let mut e = Erasure::default();
    module.visit_with(&mut e);
    a.erasure = e.problems;
  }
  Ok(a)
}

/// export names of a module with `export *` expanded (default excluded from stars; own names win). A star target that
/// has no text in `texts` (a module of a package without fast-check output) is looked up in `fallback` (the originals).
pub fn export_names(texts: &HashMap<String, String>, fallback: &HashMap<String, String>, url: &str, seen: &mut BTreeSet<String>) -> BTreeSet<String> {
  let mut out = BTreeSet::new();
  if !seen.insert(url.to_string()) {
    return out;
  }
  let Some(text) = texts.get(url).or_else(|| fallback.get(url)) else { return out };
  let Ok(a) = analyze(url, text, false) else { return out };
  out.extend(a.exports.iter().cloned());
  for s in &a.stars {
    if let Ok(t) = ModuleSpecifier::parse(url).unwrap().join(s) {
      let sub = export_names(texts, fallback, t.as_str(), seen);
      out.extend(sub.into_iter().filter(|n| n != "default"));
    }
  }
  out
}

fn hash(s: &str) -> String {
  use sha2::Digest;
  let mut h = sha2::Sha256::new();
  h.update(s.as_bytes());
  format!("{:x}", h.finalize())[..12].to_string()
}

/// Projection of the fast-check result of every module of the world.
pub fn project(world: &FcWorld, g: &ModuleGraph) -> Value {
  let mut originals: HashMap<String, String> = HashMap::new();
  for p in &world.packages {
    for (f, src) in &p.files {
      originals.insert(world.url(p, f), src.clone());
    }
  }
  let mut emitted: HashMap<String, String> = HashMap::new();
  for m in g.modules() {
    if let deno_graph::Module::Js(js) = m
      && let Some(fc) = js.fast_check_module()
    {
      emitted.insert(js.specifier.to_string(), fc.source.to_string());
    }
  }
  let mut mods = serde_json::Map::new();
  for p in &world.packages {
    for f in p.files.keys() {
      let url = world.url(p, f);
      let id = world.id_of(&url);
      let spec = ModuleSpecifier::parse(&url).unwrap();
      let Some(deno_graph::Module::Js(js)) = g.get(&spec) else {
        mods.insert(id, json!({"slot": "absent", "pkg": p.name}));
        continue;
      };
      let orig = analyze(&url, &originals[&url], false);
      let orig_exports: Vec<String> = export_names(&originals, &originals, &url, &mut BTreeSet::new()).into_iter().collect();
      let orig_top: Vec<String> = orig.as_ref().map(|a| a.top_level.iter().cloned().collect()).unwrap_or_default();
      let dif: Vec<String> = orig.as_ref().map(|a| a.default_ifaces.iter().cloned().collect()).unwrap_or_default();
      let mut v = json!({"pkg": p.name, "slot": "none", "origExports": orig_exports, "origTop": orig_top, "defaultIfaces": dif});
      match &js.fast_check {
        None => {}
        Some(FastCheckTypeModuleSlot::Error(ds)) => {
          v["slot"] = json!("error");
          use deno_ast::diagnostics::Diagnostic;
          let mut codes: Vec<String> = ds.iter().map(|d| d.code().to_string()).collect();
          codes.sort();
          v["diag"] = json!(codes);
        }
        Some(FastCheckTypeModuleSlot::Module(fc)) => {
          v["slot"] = json!("module");
          v["text"] = json!(hash(&fc.source));
          v["map"] = json!(hash(&fc.source_map));
          let mut deps: Vec<String> = fc.dependencies.keys().cloned().collect();
          deps.sort();
          v["deps"] = json!(deps);
          // dependencies the emitted text itself declares
          let parser = deno_graph::ast::DefaultEsParser;
          let analyzer = deno_graph::ast::ParserModuleAnalyzer::new(&parser);
          let declared: Vec<String> = match analyzer.analyze_sync(&spec, fc.source.clone(), js.media_type) {
            Ok(info) => {
              let mut d: BTreeSet<String> = BTreeSet::new();
              for dep in &info.dependencies {
                if let Some(s) = dep.as_static() {
                  d.insert(s.specifier.clone());
                }
              }
              for r in &info.ts_references {
                match r {
                  deno_graph::analysis::TypeScriptReference::Path(s) => d.insert(s.text.clone()),
                  deno_graph::analysis::TypeScriptReference::Types { specifier, .. } => d.insert(specifier.text.clone()),
                };
              }
              d.into_iter().collect()
            }
            Err(_) => vec!["<reparse failed>".to_string()],
          };
          v["declaredDeps"] = json!(declared);
          match analyze(&url, &fc.source, true) {
            Ok(a) => {
              v["reparse"] = json!(true);
              v["retained"] = json!(a.top_level.iter().cloned().collect::<Vec<_>>());
              v["kinds"] = json!(a.decl_kinds);
              v["origKinds"] = json!(orig.as_ref().map(|o| o.decl_kinds.clone()).unwrap_or_default());
              let em: Vec<String> = export_names(&emitted, &originals, &url, &mut BTreeSet::new()).into_iter().collect();
              v["emitExports"] = json!(em);
              // identifiers that referred to a top-level declaration/import of the original but are unresolved now
              let dangling: Vec<String> = orig.as_ref().map(|o| a.unresolved.iter().filter(|n| o.top_level.contains(*n)).cloned().collect()).unwrap_or_default();
              v["dangling"] = json!(dangling);
              // a name can live in the type namespace, the value namespace or both: a reference in one namespace needs a
              // declaration (or import) in that namespace, if the original had one there
              let has = |an: &Analysis, n: &str, kinds: &[&str]| an.kinds_all.get(n).map(|ks| ks.iter().any(|k| kinds.contains(&k.as_str()))).unwrap_or(false);
              let type_kinds = ["class", "interface", "type", "enum", "namespace"];
              let value_kinds = ["class", "function", "var", "enum", "namespace"];
              let mut ns_dangling = vec![];
              if let Ok(o) = orig.as_ref() {
                for n in &a.type_refs {
                  if has(o, n, &type_kinds) && !has(&a, n, &type_kinds) && !a.imported.contains(n) {
                    ns_dangling.push(format!("type {n}"));
                  }
                }
                for n in &a.value_refs {
                  if has(o, n, &value_kinds) && !has(&a, n, &value_kinds) && !a.imported.contains(n) {
                    ns_dangling.push(format!("value {n}"));
                  }
                }
              }
              v["nsDangling"] = json!(ns_dangling);
              // names imported / re-exported by name from a module of the analysed packages must be exported by what
              // the type checker will see for that module: its emitted counterpart, or its original when none was emitted
              let mut missing = vec![];
              for (sp, name) in &a.named_refs {
                if let Ok(t) = spec.join(sp)
                  && originals.contains_key(t.as_str())
                  && !export_names(&emitted, &originals, t.as_str(), &mut BTreeSet::new()).contains(name)
                  // the original did not export it either: not introduced by the transform
                  && export_names(&originals, &originals, t.as_str(), &mut BTreeSet::new()).contains(name)
                {
                  missing.push(format!("{name} from {sp}"));
                }
              }
              v["missingImports"] = json!(missing);
              v["erasure"] = json!(a.erasure);
              v["sigDiffs"] = json!(signature_diffs(&url, &originals[&url], &fc.source));
              if let Some(sig) = subject_sig(&url, &fc.source) {
                v["sig"] = json!(sig);
              }
              // relative specifiers must resolve to modules of the graph
              let mut bad = vec![];
              for d in fc.dependencies.values() {
                for r in [&d.maybe_code, &d.maybe_type] {
                  if let Some(s) = r.maybe_specifier()
                    && s.scheme() == "file"
                    && g.get(s).is_none()
                  {
                    bad.push(s.to_string());
                  }
                }
              }
              v["unresolvedSpecifiers"] = json!(bad);
              v["mapOk"] = json!(source_map_ok(&fc.source_map, &fc.source, &originals[&url]));
            }
            Err(e) => {
              v["reparse"] = json!(false);
              v["reparseError"] = json!(e);
            }
          }
        }
      }
      mods.insert(id, v);
    }
  }
  let pkgs: serde_json::Map<String, Value> = world
    .packages
    .iter()
    .map(|p| {
      // a published package is analysed from the exports the graph uses: every consumer here imports "jsr:<name>@1" (".")
      let eps: Vec<String> = p.exports.iter().filter(|(k, _)| !world.registry || k.as_str() == ".").map(|(_, e)| e).map(|e| world.id_of(ModuleSpecifier::parse(&p.base).unwrap().join(e).unwrap().as_str())).collect();
      let files: Vec<String> = p.files.keys().map(|f| world.id_of(&world.url(p, f))).collect();
      (p.name.clone(), json!({"entrypoints": eps, "files": files}))
    })
    .collect();
  json!({"mods": mods, "pkgs": pkgs})
}

/// C11 "signatures carried over": structural comparison (spans ignored) of the type-level skeleton of every declaration
/// that occurs at top level in both the original and the emitted module. Interfaces, type aliases and enums must be
/// identical; functions, class members and variables must keep their type parameters, annotated parameter types,
/// annotated return / property / variable types and modifiers. Parameters with default values are excluded here (their
/// normalisation is modelled in Transform.tla). Returns the names that differ, with the aspect.
pub fn signature_diffs(url: &str, original: &str, emitted: &str) -> Vec<String> {
  use deno_ast::swc::common::EqIgnoreSpan;
  let parse = |text: &str| {
    let spec = ModuleSpecifier::parse(url).ok()?;
    deno_ast::parse_module(deno_ast::ParseParams {
      specifier: spec.clone(),
      text: text.into(),
      media_type: MediaType::from_specifier(&spec),
      capture_tokens: false,
      scope_analysis: false,
      maybe_syntax: None,
    })
    .ok()
  };
  let (Some(po), Some(pe)) = (parse(original), parse(emitted)) else { return vec![] };
  fn decls(m: &deno_ast::swc::ast::Module) -> HashMap<String, Vec<Decl>> {
    let mut out: HashMap<String, Vec<Decl>> = HashMap::new();
    let mut add = |d: &Decl| {
      let name = match d {
        Decl::Class(c) => c.ident.sym.to_string(),
        Decl::Fn(f) => f.ident.sym.to_string(),
        Decl::TsInterface(i) => i.id.sym.to_string(),
        Decl::TsTypeAlias(a) => a.id.sym.to_string(),
        Decl::TsEnum(e) => e.id.sym.to_string(),
        Decl::Var(v) => match v.decls.first().map(|d| &d.name) {
          Some(Pat::Ident(i)) if v.decls.len() == 1 => i.id.sym.to_string(),
          _ => return,
        },
        _ => return,
      };
      out.entry(name).or_default().push(d.clone());
    };
    for item in &m.body {
      match item {
        ModuleItem::Stmt(Stmt::Decl(d)) => add(d),
        ModuleItem::ModuleDecl(ModuleDecl::ExportDecl(e)) => add(&e.decl),
        _ => {}
      }
    }
    out
  }
  fn fn_diff(o: &Function, e: &Function, out: &mut Vec<&'static str>) {
    if !o.type_params.eq_ignore_span(&e.type_params) {
      out.push("type-params");
    }
    if o.return_type.is_some() && !o.return_type.eq_ignore_span(&e.return_type) {
      out.push("return-type");
    }
    if o.params.len() != e.params.len() {
      out.push("param-count");
      return;
    }
    for (a, b) in o.params.iter().zip(e.params.iter()) {
      match (&a.pat, &b.pat) {
        (Pat::Ident(x), Pat::Ident(y)) if x.type_ann.is_some() => {
          if !x.eq_ignore_span(y) {
            out.push("param");
          }
        }
        (Pat::Rest(x), Pat::Rest(y)) if x.type_ann.is_some() => {
          if !x.type_ann.eq_ignore_span(&y.type_ann) {
            out.push("rest-param");
          }
        }
        (Pat::Ident(_), Pat::Ident(_)) | (Pat::Assign(_), _) | (Pat::Object(_), _) | (Pat::Array(_), _) | (Pat::Rest(_), Pat::Rest(_)) => {}
        _ => out.push("param-form"),
      }
    }
  }
  let (Program::Module(mo), Program::Module(me)) = (&*po.program(), &*pe.program()) else { return vec![] };
  let (dm_o, dm_e) = (decls(mo), decls(me));
  let mut diffs = vec![];
  for (name, ds_e) in &dm_e {
    let Some(ds_o) = dm_o.get(name) else { continue };
    // overloads: compared by the specialised shapes, not here
    if ds_o.len() != 1 || ds_e.len() != 1 {
      continue;
    }
    let mut d: Vec<&'static str> = vec![];
    match (&ds_o[0], &ds_e[0]) {
      (Decl::TsInterface(a), Decl::TsInterface(b)) => {
        if !(a.id.eq_ignore_span(&b.id) && a.type_params.eq_ignore_span(&b.type_params) && a.extends.eq_ignore_span(&b.extends) && a.body.eq_ignore_span(&b.body)) {
          d.push("interface");
        }
      }
      (Decl::TsTypeAlias(a), Decl::TsTypeAlias(b)) => {
        if !(a.type_params.eq_ignore_span(&b.type_params) && a.type_ann.eq_ignore_span(&b.type_ann)) {
          d.push("type-alias");
        }
      }
      (Decl::TsEnum(a), Decl::TsEnum(b)) => {
        if a.is_const != b.is_const || a.members.len() != b.members.len() || !a.members.iter().zip(b.members.iter()).all(|(x, y)| x.id.eq_ignore_span(&y.id)) {
          d.push("enum");
        }
      }
      (Decl::Fn(a), Decl::Fn(b)) => fn_diff(&a.function, &b.function, &mut d),
      (Decl::Var(a), Decl::Var(b)) => {
        if a.kind != b.kind {
          d.push("var-kind");
        }
        if let (Some(Pat::Ident(x)), Some(Pat::Ident(y))) = (a.decls.first().map(|d| &d.name), b.decls.first().map(|d| &d.name))
          && x.type_ann.is_some()
          && !x.type_ann.eq_ignore_span(&y.type_ann)
        {
          d.push("var-type");
        }
      }
      (Decl::Class(a), Decl::Class(b)) => {
        let (ca, cb) = (&a.class, &b.class);
        if !ca.type_params.eq_ignore_span(&cb.type_params) {
          d.push("class-type-params");
        }
        if !ca.implements.eq_ignore_span(&cb.implements) {
          d.push("class-implements");
        }
        if ca.is_abstract != cb.is_abstract {
          d.push("class-abstract");
        }
        if ca.super_class.is_some() != cb.super_class.is_some() || !ca.super_type_params.eq_ignore_span(&cb.super_type_params) {
          d.push("class-extends");
        }
        let key_count = |c: &Class, k: &PropName, st: bool| c.body.iter().filter(|m| match m {
          ClassMember::Method(m) => m.key.eq_ignore_span(k) && m.is_static == st,
          ClassMember::ClassProp(p) => p.key.eq_ignore_span(k) && p.is_static == st,
          _ => false,
        }).count();
        for m in &ca.body {
          match m {
            ClassMember::Method(mo_) if mo_.accessibility != Some(Accessibility::Private) => {
              if key_count(ca, &mo_.key, mo_.is_static) != 1 {
                continue;
              }
              let found = cb.body.iter().find_map(|x| match x { ClassMember::Method(y) if y.key.eq_ignore_span(&mo_.key) && y.is_static == mo_.is_static => Some(y), _ => None });
              match found {
                None => d.push("method-missing"),
                Some(y) => {
                  if y.kind != mo_.kind || y.is_optional != mo_.is_optional || y.is_abstract != mo_.is_abstract || y.accessibility != mo_.accessibility {
                    d.push("method-modifiers");
                  }
                  fn_diff(&mo_.function, &y.function, &mut d);
                }
              }
            }
            ClassMember::ClassProp(p) if p.accessibility != Some(Accessibility::Private) && p.type_ann.is_some() => {
              if key_count(ca, &p.key, p.is_static) != 1 {
                continue;
              }
              let found = cb.body.iter().find_map(|x| match x { ClassMember::ClassProp(y) if y.key.eq_ignore_span(&p.key) && y.is_static == p.is_static => Some(y), _ => None });
              match found {
                None => d.push("prop-missing"),
                Some(y) => {
                  if !y.type_ann.eq_ignore_span(&p.type_ann) {
                    d.push("prop-type");
                  }
                  if y.readonly != p.readonly || y.is_optional != p.is_optional || y.is_abstract != p.is_abstract || y.accessibility != p.accessibility {
                    d.push("prop-modifiers");
                  }
                }
              }
            }
            ClassMember::Constructor(k) if k.accessibility != Some(Accessibility::Private) => {
              let found = cb.body.iter().find_map(|x| match x { ClassMember::Constructor(y) => Some(y), _ => None });
              match found {
                None => d.push("ctor-missing"),
                Some(y) => {
                  if y.params.len() != k.params.len() {
                    d.push("ctor-param-count");
                  } else {
                    for (pa, pb) in k.params.iter().zip(y.params.iter()) {
                      if let (ParamOrTsParamProp::Param(pa), ParamOrTsParamProp::Param(pb)) = (pa, pb)
                        && let (Pat::Ident(x), Pat::Ident(z)) = (&pa.pat, &pb.pat)
                        && x.type_ann.is_some()
                        && !x.eq_ignore_span(z)
                      {
                        d.push("ctor-param");
                      }
                    }
                  }
                }
              }
            }
            _ => {}
          }
        }
      }
      (a, b) => {
        if std::mem::discriminant(a) != std::mem::discriminant(b) {
          d.push("declaration-kind");
        }
      }
    }
    for x in d {
      diffs.push(format!("{name}:{x}"));
    }
  }
  diffs.sort();
  diffs.dedup();
  diffs
}

/// Parameter list of the declaration called `subject` / `Subject` (function, method, constructor or arrow const) in
/// `text`: one token per parameter {form, o (optional flag), t (type text without white space)}.
pub fn subject_sig(url: &str, text: &str) -> Option<Vec<Value>> {
  use deno_ast::SourceRanged;
  use deno_ast::SourceRangedForSpanned;
  let spec = ModuleSpecifier::parse(url).ok()?;
  let parsed = deno_ast::parse_module(deno_ast::ParseParams {
    specifier: spec.clone(),
    text: text.into(),
    media_type: MediaType::from_specifier(&spec),
    capture_tokens: false,
    scope_analysis: false,
    maybe_syntax: None,
  })
  .ok()?;
  let info = parsed.text_info_lazy();
  let ty = |t: &Option<Box<TsTypeAnn>>| -> String {
    match t {
      Some(t) => t.type_ann.range().text_fast(info).chars().filter(|c| !c.is_whitespace()).collect(),
      None => "-".to_string(),
    }
  };
  let tok = |p: &Pat| -> Value {
    match p {
      Pat::Ident(i) => json!({"form": "ident", "o": i.id.optional, "t": ty(&i.type_ann)}),
      Pat::Rest(r) => json!({"form": "rest", "o": false, "t": ty(&r.type_ann)}),
      Pat::Object(o) => json!({"form": "object", "o": o.optional, "t": ty(&o.type_ann)}),
      Pat::Array(a) => json!({"form": "array", "o": a.optional, "t": ty(&a.type_ann)}),
      Pat::Assign(a) => match &*a.left {
        Pat::Ident(i) => json!({"form": "assign", "o": i.id.optional, "t": ty(&i.type_ann)}),
        _ => json!({"form": "assign", "o": false, "t": "?"}),
      },
      _ => json!({"form": "other", "o": false, "t": "?"}),
    }
  };
  let program = parsed.program();
  let Program::Module(module) = &*program else { return None };
  for item in &module.body {
    let ModuleItem::ModuleDecl(ModuleDecl::ExportDecl(e)) = item else { continue };
    match &e.decl {
      Decl::Fn(f) if &*f.ident.sym == "subject" => return Some(f.function.params.iter().map(|p| tok(&p.pat)).collect()),
      Decl::Class(c) if &*c.ident.sym == "Subject" => {
        for m in &c.class.body {
          match m {
            ClassMember::Method(m) if matches!(&m.key, PropName::Ident(i) if &*i.sym == "subject") => {
              return Some(m.function.params.iter().map(|p| tok(&p.pat)).collect());
            }
            ClassMember::Constructor(k) => {
              return Some(k.params.iter().map(|p| match p { ParamOrTsParamProp::Param(p) => tok(&p.pat), _ => json!({"form": "paramprop", "o": false, "t": "?"}) }).collect());
            }
            _ => {}
          }
        }
      }
      Decl::Var(v) => {
        for d in &v.decls {
          if let Pat::Ident(i) = &d.name
            && &*i.id.sym == "subject"
            && let Some(init) = &d.init
            && let Expr::Arrow(a) = &**init
          {
            return Some(a.params.iter().map(tok).collect());
          }
        }
      }
      _ => {}
    }
  }
  None
}

/// The source map decodes, and every mapped token that is an identifier in the emitted text maps to the same
/// identifier text in the original.
pub fn source_map_ok(map: &str, emitted: &str, original: &str) -> Value {
  use deno_ast::swc::sourcemap::SourceMap;
  let Ok(sm) = SourceMap::from_slice(map.as_bytes()) else { return json!({"ok": false, "why": "does not decode"}) };
  let elines: Vec<&str> = emitted.lines().collect();
  let olines: Vec<&str> = original.lines().collect();
  let mut checked = 0;
  let mut bad = vec![];
  let ident_at = |lines: &[&str], line: u32, col: u32| -> Option<String> {
    let l = lines.get(line as usize)?;
    // columns are UTF-16 code units
    let mut idx = 0usize;
    let mut cu = 0u32;
    for (i, ch) in l.char_indices() {
      if cu >= col {
        idx = i;
        break;
      }
      cu += ch.len_utf16() as u32;
      idx = i + ch.len_utf8();
    }
    let rest = &l[idx.min(l.len())..];
    let id: String = rest.chars().take_while(|c| c.is_alphanumeric() || *c == '_' || *c == '$').collect();
    if id.is_empty() || id.chars().next().unwrap().is_numeric() { None } else { Some(id) }
  };
  for t in sm.tokens() {
    if t.get_dst_line() as usize >= elines.len() || t.get_src_line() as usize >= olines.len() {
      bad.push(format!("token outside text: dst {}:{} src {}:{}", t.get_dst_line(), t.get_dst_col(), t.get_src_line(), t.get_src_col()));
      continue;
    }
    if let (Some(e), Some(o)) = (ident_at(&elines, t.get_dst_line(), t.get_dst_col()), ident_at(&olines, t.get_src_line(), t.get_src_col())) {
      checked += 1;
      const MODS: [&str; 14] = ["export", "declare", "default", "async", "public", "private", "protected", "readonly", "static", "abstract", "override", "accessor", "function", "const"];
      if e != o && !MODS.contains(&o.as_str()) && !MODS.contains(&e.as_str()) {
        bad.push(format!("{e} <- {o} at {}:{}", t.get_dst_line(), t.get_dst_col()));
      }
    }
  }
  json!({"ok": bad.is_empty(), "checked": checked, "bad": bad.into_iter().take(5).collect::<Vec<_>>()})
}

// ------------------------------------------------------------------------------------------
// seeded random workspace packages
use rand::Rng;
use rand::rngs::StdRng;

struct Gen<'a> {
  rng: &'a mut StdRng,
  slow: f64,
}

pub fn gen_world(rng: &mut StdRng, slow: f64) -> FcWorld {
  let npk = rng.gen_range(1..=2);
  let mut g = Gen { rng, slow };
  let mut packages = vec![];
  // first decide file lists so that imports can target any file
  let mut layout: Vec<(String, Vec<String>)> = vec![];
  for p in 0..npk {
    let mut files = vec!["mod.ts".to_string()];
    for f in ["a.ts", "b.ts", "c.ts"] {
      if g.rng.gen_bool(0.7) {
        files.push(f.to_string());
      }
    }
    layout.push((format!("p{}", p + 1), files));
  }
  // type-ish exported names per file, decided up front
  let mut typeish: HashMap<(String, String), Vec<String>> = HashMap::new();
  let mut plans: HashMap<(String, String), Vec<(String, &'static str, bool)>> = HashMap::new();
  for (pk, files) in &layout {
    for f in files {
      let n = g.rng.gen_range(2..=5);
      let mut ds = vec![];
      for i in 0..n {
        let kind = ["iface", "alias", "func", "class", "konst", "enum", "ns", "gfunc", "aclass", "giface", "dual"][g.rng.gen_range(0..11)];
        let exported = g.rng.gen_bool(0.6);
        let name = format!("{}{}_{}{}", &kind[..1].to_uppercase(), i, pk, f.replace(".ts", ""));
        if exported && matches!(kind, "iface" | "alias" | "class" | "enum" | "aclass") {
          typeish.entry((pk.clone(), f.clone())).or_default().push(name.clone());
        }
        ds.push((name, kind, exported));
      }
      plans.insert((pk.clone(), f.clone()), ds);
    }
  }
  for (pk, files) in &layout {
    let mut fmap = IndexMap::new();
    for f in files {
      let ds = &plans[&(pk.clone(), f.clone())];
      let mut imports: BTreeSet<String> = BTreeSet::new();
      let mut body = String::new();
      let local_types: Vec<String> = ds.iter().filter(|d| matches!(d.1, "iface" | "alias" | "class" | "enum")).map(|d| d.0.clone()).collect();
      let local_ns: Vec<String> = ds.iter().filter(|d| d.1 == "ns").map(|d| d.0.clone()).collect();
      let local_konst: Vec<String> = ds.iter().filter(|d| d.1 == "konst").map(|d| d.0.clone()).collect();
      for (name, kind, exported) in ds {
        let mut ty = |g: &mut Gen| -> String {
          match g.rng.gen_range(0..9) {
            0 | 1 => "number".to_string(),
            2 | 3 if !local_types.is_empty() => local_types[g.rng.gen_range(0..local_types.len())].clone(),
            4 if !local_ns.is_empty() => format!("{}.Inner", local_ns[g.rng.gen_range(0..local_ns.len())]),
            5 if !local_konst.is_empty() => format!("typeof {}", local_konst[g.rng.gen_range(0..local_konst.len())]),
            6 | 7 => {
              // a type exported by another file (same or other package)
              let (opk, ofiles) = &layout[g.rng.gen_range(0..layout.len())];
              // another package is consumed through its entrypoint only (fast check analyses a dependency package
              // from its exports; reaching into its internal files is outside the analysed domain)
              let mod_only = vec!["mod.ts".to_string()];
              let ofiles = if opk == pk { ofiles } else { &mod_only };
              let of = &ofiles[g.rng.gen_range(0..ofiles.len())];
              if (opk, of) == (pk, f) {
                return "string".to_string();
              }
              match typeish.get(&(opk.clone(), of.clone())) {
                Some(v) if !v.is_empty() => {
                  let n = v[g.rng.gen_range(0..v.len())].clone();
                  // import it from the file that declares it, or through the barrel chain a.ts -> b.ts -> c.ts
                  // (`export *` forwarding, see below) when the declaring file is further down the chain
                  let chain = ["a.ts", "b.ts", "c.ts"];
                  let via = match chain.iter().position(|c| c == of) {
                    Some(pos) if pos > 0 && g.rng.gen_bool(0.4) => {
                      let start = g.rng.gen_range(0..pos);
                      if (start..=pos).all(|i| ofiles.contains(&chain[i].to_string())) && !(opk == pk && chain[start] == f) { chain[start].to_string() } else { of.clone() }
                    }
                    _ => of.clone(),
                  };
                  let of = &via;
                  let rel = if opk == pk { format!("./{of}") } else { format!("../{opk}/{of}") };
                  if g.rng.gen_bool(0.25) {
                    format!("import(\"{rel}\").{n}")
                  } else {
                    let kw = if g.rng.gen_bool(0.3) { "import type" } else { "import" };
                    imports.insert(format!("{kw} {{ {n} }} from \"{rel}\";"));
                    n
                  }
                }
                _ => "boolean".to_string(),
              }
            }
            _ => "string".to_string(),
          }
        };
        let ex = if *exported { "export " } else { "" };
        let slow = *exported && g.rng.gen_bool(g.slow);
        let t1 = ty(&mut g);
        let t2 = ty(&mut g);
        let text = match (*kind, slow) {
          ("iface", _) => format!("{ex}interface {name} {{ f: {t1}; g?: {t2}[]; }}\n"),
          ("alias", _) => format!("{ex}type {name} = {t1} | string;\n"),
          ("func", false) => format!("{ex}function {name}(p: {t1}, q: number = 1): {t2} {{ console.log(p, q); return null as any; }}\n"),
          ("func", true) => format!("{ex}function {name}(p: {t1}) {{ return [p, Math.random()]; }}\n"),
          ("class", false) => format!(
            "{ex}class {name} {{ x: {t1} = null as any; private secret: number = 1; #hid = 2; constructor(a: {t1}) {{ this.x = a; }} m(v: {t2}): void {{ console.log(v, this.#hid, this.secret); }} get g(): {t1} {{ return this.x; }} static s: number = 1; }}\n"
          ),
          ("class", true) => format!("{ex}class {name} {{ m(v: {t1}) {{ return [v]; }} }}\n"),
          ("konst", false) => format!("{ex}const {name}: {t1} = null as any;\n"),
          ("konst", true) => format!("{ex}const {name} = JSON.parse(\"1\");\n"),
          ("enum", _) => format!("{ex}enum {name} {{ A, B = 2 }}\n"),
          // signature features: generics with constraints and defaults, rest / optional parameters, overloads,
          // abstract / readonly / protected / optional members, index and call signatures
          ("gfunc", false) => format!("{ex}function {name}<T extends {t1}, U = {t2}>(p: T, o?: U, ...rest: {t2}[]): [T, U] {{ console.log(p, o, rest); return null as any; }}\n"),
          ("gfunc", true) => format!("{ex}function {name}<T>(p: T) {{ return {{ p, r: Math.random() }}; }}\n"),
          ("aclass", _) => format!(
            "{ex}abstract class {name}<T = {t1}> {{ readonly r: T = null as any; protected q?: {t2}; static readonly S: string = \"s\"; abstract am(v: T): {t2}; om?(): void; protected pm(a: {t1}, b?: number): T {{ console.log(a, b); return this.r; }} set w(v: {t2}) {{ console.log(v); }} }}\n"
          ),
          ("giface", _) => format!("{ex}interface {name}<K extends string = string> {{ [key: string]: unknown; (arg: {t1}): {t2}; new (arg: K): {name}<K>; m<V>(v: V, ...r: {t1}[]): V; readonly ro?: K; }}\n"),
          // one name in both namespaces (private value + private type), each reached by its own public reference
          ("dual", _) => {
            let (first, second) = if g.rng.gen_bool(0.5) {
              (format!("export function ut_{name}(a: {name}): void {{ console.log(a); }}\n"), format!("export const uv_{name}: typeof {name} = null as any;\n"))
            } else {
              (format!("export const uv_{name}: typeof {name} = null as any;\n"), format!("export function ut_{name}(a: {name}): void {{ console.log(a); }}\n"))
            };
            format!("const {name}: {{ readonly tag: \"v\" }} = {{ tag: \"v\" }};\ntype {name} = {t1} | \"t\";\n{first}{second}")
          }
          ("ns", _) => format!("{ex}namespace {name} {{ export interface Inner {{ v: {t1} }} export const k: number = 1; }}\n"),
          _ => unreachable!(),
        };
        body.push_str(&text);
      }
      let mut src = String::new();
      for i in &imports {
        src.push_str(i);
        src.push('\n');
      }
      src.push_str(&body);
      // barrel chain: a.ts forwards b.ts, b.ts forwards c.ts
      for (from, to) in [("a.ts", "b.ts"), ("b.ts", "c.ts")] {
        if f == from && files.contains(&to.to_string()) {
          src.push_str(&format!("export * from \"./{to}\";\n"));
        }
      }
      if f == "mod.ts" {
        for of in files.iter().filter(|x| *x != "mod.ts") {
          match g.rng.gen_range(0..4) {
            0 | 1 => src.push_str(&format!("export * from \"./{of}\";\n")),
            2 => {
              if let Some(v) = typeish.get(&(pk.clone(), of.clone())).filter(|v| !v.is_empty()) {
                let n = &v[g.rng.gen_range(0..v.len())];
                src.push_str(&format!("export {{ {n} as Re_{n} }} from \"./{of}\";\n"));
              }
            }
            _ => {}
          }
        }
        if g.rng.gen_bool(0.4) {
          src.push_str("export default class DefaultThing { v: number = 1; }\n");
        }
        // another workspace member re-exporting this member's entrypoint (analysed before or after it)
        if layout.len() > 1 && g.rng.gen_bool(0.35) {
          let other = layout.iter().find(|(o, _)| o != pk).map(|(o, _)| o.clone()).unwrap();
          match g.rng.gen_range(0..3) {
            0 => src.push_str(&format!("export * from \"../{other}/mod.ts\";\n")),
            1 => src.push_str(&format!("export * as other_{other} from \"../{other}/mod.ts\";\n")),
            _ => src.push_str(&format!("import * as ns_{other} from \"../{other}/mod.ts\";\nexport const viaNs_{pk}: typeof ns_{other} = null as any;\n")),
          }
        }
        if g.rng.gen_bool(0.3) {
          src.push_str("console.log(\"side effect\");\n");
        }
      }
      fmap.insert(f.clone(), src);
    }
    let mut exports = IndexMap::new();
    exports.insert(".".to_string(), "./mod.ts".to_string());
    if files.contains(&"b.ts".to_string()) && g.rng.gen_bool(0.4) {
      exports.insert("./b".to_string(), "./b.ts".to_string());
    }
    if files.contains(&"c.ts".to_string()) && g.rng.gen_bool(0.2) {
      exports.insert("./c".to_string(), "./c.ts".to_string());
    }
    packages.push(FcPackage { name: format!("@s/{pk}"), base: format!("file:///{pk}/"), exports, files: fmap });
  }
  FcWorld { packages, registry: false, root: vec![] }
}

/// One source edit: returns the edited world and a description.
pub fn edit_world(rng: &mut StdRng, world: &FcWorld) -> (FcWorld, String) {
  let mut w = world.clone();
  // registry form: the root stops importing one of the packages (it may stay reachable through another package)
  if w.registry && w.root.len() > 1 && rng.gen_bool(0.5) {
    let i = rng.gen_range(0..w.root.len());
    let dropped = w.root.remove(i);
    return (w, format!("root no longer imports {dropped}"));
  }
  let pi = rng.gen_range(0..w.packages.len());
  let fi = rng.gen_range(0..w.packages[pi].files.len());
  let (fname, src) = w.packages[pi].files.get_index_mut(fi).map(|(k, v)| (k.clone(), v)).unwrap();
  let what = match rng.gen_range(0..4) {
    0 => {
      src.push_str("const privateAddition = 123;\n");
      "append a private declaration"
    }
    1 => {
      src.push_str(&format!("export interface Added{} {{ z: number }}\n", rng.gen_range(0..1000)));
      "append a public declaration"
    }
    2 => {
      src.push_str(&format!("export function slowAdded{}(p) {{ return p; }}\n", rng.gen_range(0..1000)));
      "append a declaration that needs inference (diagnostic)"
    }
    _ => {
      *src = src.replace("return [p, Math.random()];", "return null as any;").replace(") { return [p", "): unknown { return [p");
      "try to repair a slow type"
    }
  };
  (w, format!("{}:{} {}", w_name(world, pi), fname, what))
}
fn w_name(w: &FcWorld, pi: usize) -> String {
  w.packages[pi].name.clone()
}

/// Renders an abstract program of FastCheck.tla (see MC_FastCheck) into one workspace package `p1` with entry `<entry>.ts`.
pub fn render_program(prog: &Value, idx: usize) -> FcWorld {
  // default-exported declarations are classes; every fifth program renders them as interfaces (the shape of finding F22)
  let default_as_interface = idx % 5 == 0;
  let strs = |v: &Value| -> Vec<String> { v.as_array().map(|a| a.iter().filter_map(|x| x.as_str().map(|s| s.to_string())).collect()).unwrap_or_default() };
  let mods = strs(&prog["mods"]);
  let decls = strs(&prog["decls"]);
  let entry = prog["entry"].as_str().unwrap().to_string();
  let local = |m: &str, d: &str| -> String {
    match prog["exported"][m][d].as_str().unwrap_or("-") {
      "-" => format!("P_{m}_{d}"),
      "default" => format!("Def_{m}"),
      n => n.to_string(),
    }
  };
  let mut files = IndexMap::new();
  for m in &mods {
    let mut src = String::new();
    if let Some(al) = prog["alias"][m].as_object() {
      for (a, tv) in al {
        if let Some(arr) = tv.as_array().filter(|x| x.len() == 2) {
          let (t, n) = (arr[0].as_str().unwrap(), arr[1].as_str().unwrap());
          if n == "*" {
            src.push_str(&format!("import * as {a} from \"./{t}.ts\";\n"));
          } else if n == "default" {
            src.push_str(&format!("import {a} from \"./{t}.ts\";\n"));
          } else {
            src.push_str(&format!("import {{ {n} as {a} }} from \"./{t}.ts\";\n"));
          }
        }
      }
    }
    for t in strs(&prog["stars"][m]) {
      src.push_str(&format!("export * from \"./{t}.ts\";\n"));
    }
    for d in &decls {
      let name = local(m, d);
      let mut ref_fields = String::new();
      for (i, r) in strs(&prog["refs"][m][d]).iter().enumerate() {
        let is_ns = prog["alias"][m][r].as_array().is_some_and(|x| x.len() == 2 && x[1] == "*");
        let ty = if decls.contains(r) { local(m, r) } else if is_ns { format!("typeof {r}") } else { r.clone() };
        ref_fields.push_str(&format!(" r{i}: {ty};"));
      }
      let mut mod_fields = String::new();
      for (i, t) in strs(&prog["modrefs"][m][d]).iter().enumerate() {
        mod_fields.push_str(&format!(" w{i}: typeof import(\"./{t}.ts\");"));
      }
      // the order in which a declaration mentions things decides the order of the tracer's requests: use both orders
      let fields = if idx % 2 == 0 { format!("{ref_fields}{mod_fields}") } else { format!("{mod_fields}{ref_fields}") };
      let kw = match prog["exported"][m][d].as_str().unwrap_or("-") {
        "-" => "",
        "default" => "export default ",
        _ => "export ",
      };
      if kw == "export default " && !default_as_interface {
        let cfields = fields.replace(";", " = null as any;");
        src.push_str(&format!("{kw}class {name} {{{cfields} }}\n"));
      } else {
        src.push_str(&format!("{kw}interface {name} {{{fields} }}\n"));
      }
    }
    files.insert(format!("{m}.ts"), src);
  }
  let mut exports = IndexMap::new();
  exports.insert(".".to_string(), format!("./{entry}.ts"));
  FcWorld { packages: vec![FcPackage { name: "@s/p1".into(), base: "file:///p1/".into(), exports, files }], registry: false, root: vec![] }
}

/// Renders one shape of Transform.tla as a one-module workspace package whose only public API is that declaration.
pub fn render_shape(shape: &Value) -> FcWorld {
  let s = |k: &str| shape[k].as_str().unwrap_or("").to_string();
  let b = |k: &str| shape[k].as_bool().unwrap_or(false);
  let param = |p: &str| -> &'static str {
    match p {
      "typed" => "p: number",
      "untyped" => "p",
      "default-lit" => "p = 1",
      "default-call" => "p = helper()",
      "typed-default-call" => "p: number = helper()",
      "obj-typed" => "{ a }: { a: number }",
      "obj-untyped" => "{ a }",
      "rest-typed" => "...r: number[]",
      "rest-untyped" => "...r",
      "optional-typed" => "p?: number",
      _ => "p: number",
    }
  };
  let prelude = "function helper(): number { return Math.random(); }\nfunction helper2(): { a: number } { return { a: 1 }; }\n";
  let mut other_files: Vec<(String, String)> = vec![];
  let decl = match s("fam").as_str() {
    "params" => {
      let ps: Vec<String> = shape["ps"].as_array().map(|a| a.iter().enumerate().map(|(i, k)| {
        let n = format!("p{}", i + 1);
        match k.as_str().unwrap_or("") {
          "req" => format!("{n}: string"),
          "opt" => format!("{n}?: string"),
          "def" => format!("{n}: string = \"x\""),
          "defAny" => format!("{n}: any = 1"),
          "defInfer" => format!("{n} = 1"),
          "rest" => format!("...{n}: string[]"),
          "obj" => "{ a }: Rec".to_string(),
          _ => n,
        }
      }).collect()).unwrap_or_default();
      let ps = ps.join(", ");
      let d = match s("ctx").as_str() {
        "fn" => format!("export function subject({ps}): void {{}}\n"),
        "method" => format!("export class Subject {{\n  subject({ps}): void {{}}\n}}\n"),
        "ctor" => format!("export class Subject {{\n  constructor({ps}) {{}}\n}}\n"),
        _ => format!("export const subject = ({ps}): void => {{}};\n"),
      };
      format!("type Rec = {{ a: number }};\n{d}")
    }
    "fn" => {
      let (asy, is_gen) = (b("async"), b("gen"));
      let ret = if s("ret") == "ann" {
        match (asy, is_gen) { (false, false) => ": number", (true, false) => ": Promise<number>", (false, true) => ": Generator<number>", (true, true) => ": AsyncGenerator<number>" }
      } else { "" };
      let body = match (s("body").as_str(), is_gen) {
        ("none", false) => "{ helper(); }",
        ("none", true) => "{ yield 1; }",
        ("void", _) => "{ if (helper() > 0.5) return; helper(); }",
        ("single", false) => "{ return helper(); }",
        ("single", true) => "{ yield 1; return helper(); }",
        ("multi", _) => "{ if (helper() > 0.5) return 1; return 2; }",
        _ => "{}",
      };
      // with a return annotation the body must agree with it for the source to make sense
      let body = if s("ret") == "ann" && !is_gen { "{ return helper() as any; }" } else { body };
      format!("export {}function{} subject({}){} {}\n", if asy { "async " } else { "" }, if is_gen { "*" } else { "" }, param(&s("param")), ret, body)
    }
    "arrow" => {
      let asy = b("async");
      let ret = if s("ret") == "ann" { if asy { ": Promise<number>" } else { ": number" } } else { "" };
      let body = match s("body").as_str() {
        "expr-lit" => "1",
        "expr-call" => "helper()",
        "block-none" => "{ helper(); }",
        "block-void" => "{ if (helper() > 0.5) return; helper(); }",
        "block-single" => "{ return helper(); }",
        _ => "1",
      };
      let body = if s("ret") == "ann" { "(helper() as any)" } else { body };
      format!("export const subject = {}({}){} => {};\n", if asy { "async " } else { "" }, param(&s("param")), ret, body)
    }
    "var" => {
      let kind = s("kind");
      match s("init").as_str() {
        "ann-call" => format!("export {kind} subject: number = helper();\n"),
        "lit-num" => format!("export {kind} subject = 1;\n"),
        "lit-str" => format!("export {kind} subject = \"s\";\n"),
        "lit-bool" => format!("export {kind} subject = true;\n"),
        "lit-bigint" => format!("export {kind} subject = 1n;\n"),
        "neg-num" => format!("export {kind} subject = -1;\n"),
        "call" => format!("export {kind} subject = helper();\n"),
        "new" => format!("export {kind} subject = new Map();\n"),
        "as-simple" => format!("export {kind} subject = helper() as number;\n"),
        "arr" => format!("export {kind} subject = [1, 2];\n"),
        "obj" => format!("export {kind} subject = {{ a: 1, b: \"x\" }};\n"),
        "tpl" => format!("export {kind} subject = `text`;\n"),
        "destruct" => format!("export {kind} {{ a: subject }} = helper2();\n"),
        "arrow-ok" => format!("export {kind} subject = (p: number): number => p;\n"),
        "arr-call-first" => format!("export {kind} subject = [helper(), null];\n"),
        "arr-call-last" => format!("export {kind} subject = [null, helper()];\n"),
        "arr-call-mid" => format!("export {kind} subject = [1, helper(), 2];\n"),
        "arr-nested-call" => format!("export {kind} subject = [[helper(), 0], 1];\n"),
        "obj-call" => format!("export {kind} subject = {{ a: 1, b: helper() }};\n"),
        "obj-call-first" => format!("export {kind} subject = {{ b: helper(), a: 1 }};\n"),
        "obj-method" => format!("export {kind} subject = {{ a: 1, m() {{ return 1; }} }};\n"),
        "cond-call" => format!("export {kind} subject = true ? helper() : 1;\n"),
        "tpl-call" => format!("export {kind} subject = `a${{helper()}}b`;\n"),
        "unary-call" => format!("export {kind} subject = -helper();\n"),
        "bin-call-left" => format!("export {kind} subject = helper() + 1;\n"),
        "paren-call" => format!("export {kind} subject = (helper());\n"),
        "spread-call" => format!("export {kind} subject = [...[helper()], 1];\n"),
        "member-lit" => format!("export {kind} subject = Number.MAX_VALUE;\n"),
        "tagged-tpl" => format!("export {kind} subject = String.raw`x`;\n"),
        "seq" => format!("export {kind} subject = (1, 2);\n"),
        "assign" => format!("let other: number = 0;\nexport {kind} subject = (other = 1);\n"),
        "optchain" => format!("export {kind} subject = helper2()?.a;\n"),
        "class-expr" => format!("export {kind} subject = class {{}};\n"),
        "await-call" => format!("export {kind} subject = await helper();\n"),
        _ => String::new(),
      }
    }
    "member" => {
      let m = match s("member").as_str() {
        "prop-arr-call-first" => "x = [helper(), 0];",
        "static-prop-arr-call-first" => "static x = [new Map<string, number>(), 0];",
        "method-default-arr-call-first" => "m(times = [helper(), 0]): void { helper(); }",
        "prop-ann" => "x: number = helper();",
        "prop-lit" => "x = 1;",
        "prop-call" => "x = helper();",
        "priv-prop-call" => "private x = helper();",
        "hash-prop-call" => "#x = helper();",
        "method-ann" => "m(): number { return helper(); }",
        "method-infer" => "m() { return helper(); }",
        "method-void" => "m() { helper(); }",
        "getter-none" => "get g() { return 1; }",
        "getter-ann" => "get g(): number { return 1; }",
        "setter-typed" => "set s(v: number) { helper(); }",
        "setter-untyped" => "set s(v) { helper(); }",
        "priv-method-infer" => "private m() { return helper(); }",
        "ctor-param-prop" => "constructor(public a: number, private b: string = \"x\") { helper(); }",
        "ctor-untyped" => "constructor(a) { helper(); }",
        "priv-ctor-untyped" => "private constructor(a) { helper(); }",
        "static-block" => "static { helper(); }",
        "static-prop-call" => "static x = helper();",
        "accessor-ann" => "accessor y: number = helper();",
        "readonly-lit" => "readonly x = 1;",
        "optional-method-ann" => "m?(): number;",
        // decorators (removed from every position; their arguments are executable logic)
        "dec-prop-ann" => "@dec(helper()) x: number = 1;",
        "dec-static-prop-ann" => "@dec(\"label\") protected static x: string = \"s\";",
        "dec-prop-lit" => "@dec(helper()) x = 1;",
        "dec-priv-prop" => "@dec(helper()) private x: number = 1;",
        "dec-method" => "@dec(helper()) m(): void { helper(); }",
        "dec-accessor" => "@dec(helper()) accessor y: number = 1;",
        "dec-getter" => "@dec(helper()) get g(): number { return 1; }",
        "dec-param" => "m(@dec(helper()) p: number): void { helper(); }",
        "dec-ctor-param-prop" => "constructor(@dec(helper()) public a: number) { helper(); }",
        _ => "",
      };
      let decl_dec = if s("member").starts_with("dec-") { "function dec(...a: any[]): any { return () => {}; }\n" } else { "" };
      if s("member") == "dec-class" {
        format!("{decl_dec}@dec(helper())\nexport class Subject {{ x: number = 1; }}\n")
      } else {
        format!("{decl_dec}export class Subject {{ {m} }}\n")
      }
    }
    "misc" => match s("misc").as_str() {
      "export-assign" => "const value: number = 1;\nexport = value;\n".to_string(),
      "export-as-namespace" => "export const x: number = 1;\nexport as namespace SubjectNs;\n".to_string(),
      "import-require" => {
        other_files.push(("other.ts".into(), "export const o: number = 1;\n".into()));
        "import other = require(\"./other.ts\");\nexport const x: typeof other = other;\n".to_string()
      }
      "declare-global" => "export const x: number = 1;\ndeclare global { interface SubjectGlobal { a: number } }\n".to_string(),
      "ambient-module" => "export const x: number = 1;\ndeclare module \"ambient-subject\" { export const a: number; }\n".to_string(),
      "default-lit" => "export default 1;\n".to_string(),
      "default-call" => "export default helper();\n".to_string(),
      "default-ident" => "const value: number = 1;\nexport default value;\n".to_string(),
      "extends-call" => "function mixin(): new () => object { return class {}; }\nexport class Subject extends mixin() {}\n".to_string(),
      "extends-ident" => "class Base { b: number = 1; }\nexport class Subject extends Base {}\n".to_string(),
      "expando-lit" => "export function subject(): void {}\nsubject.prop = 1;\n".to_string(),
      "expando-call" => "export function subject(): void {}\nsubject.prop = helper();\n".to_string(),
      "enum" => "export enum Subject { A, B = 2, C = \"c\".length }\n".to_string(),
      "interface" => "export interface Subject { a: number; m(p: string): void }\n".to_string(),
      "type-alias" => "export type Subject = { a: number } | string;\n".to_string(),
      "namespace" => "export namespace Subject { export const a: number = 1; export function f(): void { helper(); } const hidden = helper(); }\n".to_string(),
      "overloads" => "export function subject(a: number): number;\nexport function subject(a: string): string;\nexport function subject(a: any) { return a; }\n".to_string(),
      "side-effect-stmt" => "export const x: number = 1;\nconsole.log(helper());\nif (helper() > 2) { console.log(1); }\n".to_string(),
      _ => String::new(),
    },
    _ => String::new(),
  };
  let mut files = IndexMap::new();
  files.insert("mod.ts".to_string(), format!("{prelude}{decl}"));
  for (f, t) in other_files {
    files.insert(f, t);
  }
  let mut exports = IndexMap::new();
  exports.insert(".".to_string(), "./mod.ts".to_string());
  FcWorld { packages: vec![FcPackage { name: "@s/shape".into(), base: "file:///shape/".into(), exports, files }], registry: false, root: vec![] }
}
