//! dgv — conformance harness binding the TLA+ specification of deno_graph to the real crate.
//!
//!   dgv replay-core --cases <ndjson> --result <json> [--trace <ndjson> --trace-every N]
//!       spec -> impl: every case is a world plus the graphs the TLA+ builder model predicts;
//!       the real crate builds the world and the projections are compared field by field.
//!       impl -> spec: for a sample of the cases the real graph queries are recorded as trace
//!       events that the trace specification validates.
mod analyzer;
mod fc;
mod jsr;
mod ops;
mod project;
mod sched;
mod symbols;
mod world;

use ops::*;
use project::*;
use serde_json::Value;
use serde_json::json;
use std::collections::HashSet;
use std::io::BufRead;
use std::io::Write;
use world::*;

fn arg(args: &[String], name: &str) -> Option<String> {
  args.iter().position(|a| a == name).and_then(|i| args.get(i + 1).cloned())
}

fn strip(v: &Value, keys: &[&str]) -> Value {
  match v {
    Value::Object(m) => {
      let mut out = serde_json::Map::new();
      for (k, x) in m {
        if !keys.contains(&k.as_str()) {
          out.insert(k.clone(), strip(x, keys));
        }
      }
      Value::Object(out)
    }
    Value::Array(a) => Value::Array(a.iter().map(|x| strip(x, keys)).collect()),
    other => other.clone(),
  }
}

/// TLC prints empty functions as `[]`; normalise `slots`/`redirects` to objects.
fn norm_graph(v: &Value) -> Value {
  let mut g = v.clone();
  for k in ["slots", "redirects", "sch"] {
    if g.get(k).map(|x| x.is_array()).unwrap_or(false) {
      g[k] = json!({});
    }
  }
  g
}

fn first_diff(path: &str, a: &Value, b: &Value) -> Option<(String, Value, Value)> {
  if a == b {
    return None;
  }
  match (a, b) {
    (Value::Object(x), Value::Object(y)) => {
      let keys: std::collections::BTreeSet<&String> = x.keys().chain(y.keys()).collect();
      for k in keys {
        let (p, q) = (x.get(k).unwrap_or(&Value::Null), y.get(k).unwrap_or(&Value::Null));
        if let Some(d) = first_diff(&format!("{path}.{k}"), p, q) {
          return Some(d);
        }
      }
      None
    }
    (Value::Array(x), Value::Array(y)) if x.len() == y.len() => {
      for (i, (p, q)) in x.iter().zip(y).enumerate() {
        if let Some(d) = first_diff(&format!("{path}[{i}]"), p, q) {
          return Some(d);
        }
      }
      None
    }
    _ => Some((path.to_string(), a.clone(), b.clone())),
  }
}

fn panic_msg(e: Box<dyn std::any::Any + Send>) -> String {
  if let Some(s) = e.downcast_ref::<String>() {
    s.clone()
  } else if let Some(s) = e.downcast_ref::<&str>() {
    s.to_string()
  } else {
    "panic".into()
  }
}

struct CaseOut {
  mismatches: Vec<Value>,
  trace: Vec<Value>,
  builds: usize,
}

fn trace_for_graph(world: &World, g: &deno_graph::ModuleGraph, kind: &str, id: &str, out: &mut Vec<Value>, evs: &HashSet<String>) {
  let gj = graph_json(world, g);
  out.push(json!({"ev": "reset", "id": format!("{id}/{kind}"), "g": gj}));
  let roots: Vec<_> = g.roots.iter().cloned().collect();
  if evs.contains("walk") {
  for o in WOpts::all(false) {
    out.push(walk_event(world, g, &roots, &o, &HashSet::new()));
  }
  // a walk rooted at every single specifier of interest (root subsets, C14's "walk reaches")
  let o = WOpts { kind: g.graph_kind(), dynamic: true, check_js: true, fast: false };
  for s in interesting_specifiers(g) {
    out.push(walk_event(world, g, &[s], &o, &HashSet::new()));
  }
  // caller-driven skips: skip the dependencies of every module once
  let o2 = WOpts { kind: g.graph_kind(), dynamic: false, check_js: true, fast: false };
  for m in g.modules() {
    let mut skip = HashSet::new();
    skip.insert(world.id_of(m.specifier().as_str()));
    out.push(walk_event(world, g, &roots, &o2, &skip));
  }
  out.push(json!({"ev": "valid", "ok": g.valid().is_ok()}));
  }
  if evs.contains("lookup") {
    lookup_events(world, g, out);
  }
}

fn run_case(idx: usize, case: &Value, want_trace: bool, evs: &HashSet<String>) -> CaseOut {
  let mut out = CaseOut { mismatches: vec![], trace: vec![], builds: 0 };
  let world: World = serde_json::from_value(case["w"].clone()).expect("world");
  let id = format!("case{idx}");
  let mut bo = BuildOpts::default();
  bo.max_redirects = case.get("maxRedirects").and_then(|v| v.as_u64()).map(|v| v as usize);
  bo.is_dynamic = case["opts"]["isDynamic"].as_bool().unwrap_or(false);
  bo.skip_dynamic = case["opts"]["skipDynamic"].as_bool().unwrap_or(false);
  for kind in ["all", "code", "types"] {
    let expected = norm_graph(&case["graphs"][kind]);
    let res = std::panic::catch_unwind(std::panic::AssertUnwindSafe(|| build(&world, kind_of(kind), &world.roots, &bo)));
    out.builds += 1;
    let model_diverges = case["graphs"][kind].get("diverged").is_some();
    let g = match res {
      Ok(g) => g,
      Err(e) => {
        let msg = panic_msg(e);
        // the as-coded model predicts that this build never ends (finding F17): reported with its own signature
        let what = if msg.contains("load budget exceeded") && model_diverges { "diverges-as-modelled" } else { "panic" };
        out.mismatches.push(json!({"case": idx, "kind": kind, "what": what, "msg": msg, "prop": ["C03"]}));
        continue;
      }
    };
    if model_diverges {
      out.mismatches.push(json!({"case": idx, "kind": kind, "what": "model-diverges-code-terminates", "prop": ["DRIFT"]}));
      continue;
    }
    let observed = graph_json(&world, &g);
    let e1 = strip(&expected, &["sch", "ctx", "ref"]);
    let o1 = strip(&observed, &["sch", "ctx", "ref"]);
    if let Some((path, e, o)) = first_diff("g", &e1, &o1) {
      out.mismatches.push(json!({"case": idx, "kind": kind, "what": "graph", "path": path, "expected": e, "observed": o, "prop": ["C01"]}));
    } else if let Some((path, e, o)) = first_diff("g", &strip(&expected, &["sch", "ctx"]), &strip(&observed, &["sch", "ctx"])) {
      out.mismatches.push(json!({"case": idx, "kind": kind, "what": "referrer", "path": path, "expected": e, "observed": o, "prop": ["C03"]}));
    }
    if !pending_specifiers(&g).is_empty() {
      out.mismatches.push(json!({"case": idx, "kind": kind, "what": "pending", "specs": pending_specifiers(&g), "prop": ["C03"]}));
    }
    // secondary builds of worlds with implicit redirects may not terminate either (finding F17): they are caught, the
    // event is dropped and the divergence reported with the world's own signature
    let has_fin = world.mods.values().any(|m| m.fin.as_deref().is_some_and(|f| f != "-"));
    let mut secondary_diverged = false;
    let mut guarded = |f: &mut dyn FnMut()| {
      if !has_fin {
        f();
        return;
      }
      if let Err(e) = std::panic::catch_unwind(std::panic::AssertUnwindSafe(|| f())) {
        let msg = panic_msg(e);
        if msg.contains("load budget exceeded") {
          secondary_diverged = true;
        } else {
          std::panic::resume_unwind(Box::new(msg));
        }
      }
    };
    if want_trace {
      let before = out.trace.len();
      trace_for_graph(&world, &g, kind, &id, &mut out.trace, evs);
      // C17: prune the full graph, compare with the code-only build
      if kind == "all" && evs.contains("prune") {
        let mut p = g.clone();
        p.prune_types();
        // "built code-only from the same roots and sources": configured type imports are configuration, not sources
        let mut w_noimp = world.clone();
        w_noimp.imports.clear();
        let c = build(&w_noimp, deno_graph::GraphKind::CodeOnly, &world.roots, &bo);
        out.trace.push(json!({"ev": "prune", "pruned": graph_json(&world, &p), "code": graph_json(&world, &c),
          "validPruned": p.valid().is_ok(), "validCode": c.valid().is_ok()}));
      }
      // C18: segment at every module, compare with a direct build of that root
      for m in g.modules().filter(|_| evs.contains("segment")) {
        let r = m.specifier().clone();
        let seg = g.segment(&[r.clone()]);
        let rid = world.id_of(r.as_str());
        guarded(&mut || {
          let direct = build(&world, kind_of(kind), &[rid.clone()], &bo);
          out.trace.push(json!({"ev": "segment", "roots": [rid], "seg": graph_json(&world, &seg), "direct": graph_json(&world, &direct)}));
        });
      }
      // C19: add each specifier as a second root incrementally / at once; rebuild with known roots
      for r2 in world.mods.keys().filter(|_| evs.contains("incr")) {
        guarded(&mut || {
          let mut inc = g.clone();
          build_on(&world, &mut inc, &[r2.clone()], &bo);
          let mut roots = world.roots.clone();
          roots.push(r2.clone());
          let once = build(&world, kind_of(kind), &roots, &bo);
          out.trace.push(json!({"ev": "incr", "r2": r2, "inc": graph_json(&world, &inc), "once": graph_json(&world, &once)}));
        });
      }
      // C19: the configuration (type imports) arrives with a later build of the same roots
      if evs.contains("incr") && !world.imports.is_empty() {
        let mut w_noimp = world.clone();
        w_noimp.imports.clear();
        let mut inc = build(&w_noimp, kind_of(kind), &world.roots, &bo);
        build_on(&world, &mut inc, &world.roots, &bo);
        out.trace.push(json!({"ev": "incr", "r2": "-imports-", "inc": graph_json(&world, &inc), "once": graph_json(&world, &g)}));
      }
      if evs.contains("incr") {
        let mut again = g.clone();
        build_on(&world, &mut again, &world.roots, &bo);
        out.trace.push(json!({"ev": "rebuild", "same": graph_json(&world, &again) == graph_json(&world, &g)}));
      }
      if out.trace.len() == before + 1 {
        out.trace.pop(); // a lone reset
      }
    }
    if secondary_diverged {
      out.mismatches.push(json!({"case": idx, "kind": kind, "what": "diverges-secondary-build", "msg": "load budget exceeded in a build with other roots", "prop": ["C03"]}));
    }
    // C19 reload history: build, edit one source, reload exactly the edited specifier
    if let Some(edit) = case.get("edit").filter(|e| e["s"].as_str().is_some_and(|s| s != "-")) {
      let es = edit["s"].as_str().unwrap().to_string();
      let mut w2 = world.clone();
      w2.mods.insert(es.clone(), serde_json::from_value(edit["resp"].clone()).expect("edit resp"));
      let mut g2 = g.clone();
      let r = std::panic::catch_unwind(std::panic::AssertUnwindSafe(|| reload(&w2, &mut g2, &[es.clone()], &bo)));
      out.builds += 1;
      if let Err(e) = r {
        out.mismatches.push(json!({"case": idx, "kind": kind, "what": "panic-reload", "msg": panic_msg(e), "prop": ["C03", "C19"]}));
        continue;
      }
      let observed = graph_json(&w2, &g2);
      let expected = norm_graph(&case["reloaded"][kind]);
      if let Some((path, e, o)) = first_diff("g", &strip(&expected, &["sch", "ctx", "ref"]), &strip(&observed, &["sch", "ctx", "ref"])) {
        out.mismatches.push(json!({"case": idx, "kind": kind, "what": "reload-graph", "path": path, "expected": e, "observed": o, "prop": ["DRIFT"]}));
      }
      if want_trace && evs.contains("reload") {
        let fresh = build(&w2, kind_of(kind), &world.roots, &bo);
        out.trace.push(json!({"ev": "reset", "id": format!("{id}/{kind}"), "g": graph_json(&world, &g)}));
        out.trace.push(json!({"ev": "reload", "edited": [es], "after": observed, "fresh": graph_json(&w2, &fresh)}));
      }
    }
  }
  out
}

fn cmd_replay_core(args: &[String]) -> i32 {
  let cases_path = arg(args, "--cases").expect("--cases");
  let result_path = arg(args, "--result").expect("--result");
  let trace_path = arg(args, "--trace");
  let every: usize = arg(args, "--trace-every").map(|s| s.parse().unwrap()).unwrap_or(1);
  let offset: usize = arg(args, "--trace-offset").map(|s| s.parse().unwrap()).unwrap_or(0);
  let evs: HashSet<String> = arg(args, "--events")
    .unwrap_or_else(|| "walk,lookup,prune,segment,incr".to_string())
    .split(',')
    .map(|s| s.to_string())
    .collect();
  let evs = &evs;
  let threads: usize = arg(args, "--threads").map(|s| s.parse().unwrap()).unwrap_or(8);
  // cases are streamed (a thorough run has millions of them): worker i takes the lines whose index is i modulo the
  // number of workers and writes the trace events of its cases to its own part file; the parts are concatenated
  // afterwards (the events of one case stay contiguous, which is all the trace specification needs)
  let threads = threads.max(1);
  let mut results: Vec<(Vec<Value>, usize, usize, usize)> = vec![];
  std::thread::scope(|sc| {
    let mut hs = vec![];
    for ci in 0..threads {
      let want = trace_path.is_some();
      let cases_path = cases_path.clone();
      let part_path = trace_path.as_ref().map(|p| format!("{p}.part{ci}"));
      hs.push(sc.spawn(move || {
        let mut mism = vec![];
        let mut builds = 0;
        let mut events = 0;
        let mut seen = 0usize;
        let mut pf = part_path.as_ref().map(|p| std::io::BufWriter::new(std::fs::File::create(p).unwrap()));
        let mut idx = 0usize;
        for l in std::io::BufReader::new(std::fs::File::open(&cases_path).expect("cases")).lines() {
          let l = l.unwrap();
          if l.trim().is_empty() {
            continue;
          }
          let my = idx % threads == ci;
          let this = idx;
          idx += 1;
          if !my {
            continue;
          }
          seen = this + 1;
          let case: Value = serde_json::from_str(&l).expect("case json");
          let o = run_case(this, &case, want && this % every == offset % every, evs);
          mism.extend(o.mismatches);
          builds += o.builds;
          if let Some(f) = pf.as_mut() {
            for e in &o.trace {
              writeln!(f, "{}", e).unwrap();
            }
          }
          events += o.trace.len();
        }
        (mism, builds, events, seen.max(idx))
      }));
    }
    for h in hs {
      results.push(h.join().expect("worker"));
    }
  });
  let mut mism = vec![];
  let mut builds = 0;
  let mut events = 0;
  let mut n = 0;
  for (m, b, e, cnt) in results {
    mism.extend(m);
    builds += b;
    events += e;
    n = n.max(cnt);
  }
  mism.sort_by_key(|m| m["case"].as_u64().unwrap_or(0));
  if let Some(p) = trace_path.as_ref() {
    let mut f = std::io::BufWriter::new(std::fs::File::create(p).unwrap());
    for ci in 0..threads {
      let part = format!("{p}.part{ci}");
      if let Ok(mut r) = std::fs::File::open(&part) {
        std::io::copy(&mut r, &mut f).unwrap();
      }
      let _ = std::fs::remove_file(&part);
    }
  }
  let res = json!({"cases": n, "builds": builds, "trace_events": events, "mismatches": mism});
  std::fs::write(&result_path, serde_json::to_string(&res).unwrap()).unwrap();
  0
}

fn main() {
  // panics of the code under test are data (caught and reported per case); keep stderr readable
  let default_hook = std::panic::take_hook();
  std::panic::set_hook(Box::new(move |info| {
    let msg = info.payload().downcast_ref::<String>().cloned().or_else(|| info.payload().downcast_ref::<&str>().map(|s| s.to_string())).unwrap_or_default();
    if !msg.contains("load budget exceeded") {
      default_hook(info);
    }
  }));
  let args: Vec<String> = std::env::args().collect();
  let code = match args.get(1).map(|s| s.as_str()) {
    Some("replay-core") => cmd_replay_core(&args),
    Some("replay-jsr") => cmd_replay_jsr(&args),
    Some("record-jsr") => cmd_record_jsr(&args),
    Some("sched") => cmd_sched(&args),
    Some("info") => cmd_info(&args),
    Some("fc") => cmd_fc(&args),
    Some("symbols") => cmd_symbols(&args),
    Some("replay-analyzer") => cmd_replay_analyzer(&args),
    Some("fcdump") => cmd_fcdump(&args),
    Some("replay-enc") => cmd_replay_enc(&args),
    _ => {
      eprintln!("usage: dgv <replay-core> ...");
      2
    }
  };
  std::process::exit(code);
}

// ---------------------------------------------------------------------------------------------
// C06: replay of MC_Jsr cases into JsrVersionResolver::resolve_version
mod jsr_replay {
  use deno_graph::packages::*;
  use deno_semver::Version;
  use deno_semver::package::PackageReq;
  use serde_json::Value;
  use serde_json::json;
  use std::collections::HashMap;
  use std::collections::HashSet;
  use std::str::FromStr;

  fn date(s: &str) -> Option<chrono::DateTime<chrono::Utc>> {
    match s {
      "old" => Some(chrono::DateTime::from_timestamp(1_577_836_800, 0).unwrap()), // 2020-01-01
      "new" => Some(chrono::DateTime::from_timestamp(1_893_456_000, 0).unwrap()), // 2030-01-01
      _ => None,
    }
  }

  pub fn run(line: &str, idx: usize, mism: &mut Vec<Value>, stats: &mut (usize, usize, usize)) {
    let case: Value = serde_json::from_str(line).expect("case");
    let vers: Vec<Version> = case["vers"].as_array().unwrap().iter().map(|v| Version::parse_standard(v.as_str().unwrap()).unwrap()).collect();
    let v = |i: &Value| vers[i.as_u64().unwrap() as usize - 1].clone();
    let mut versions = HashMap::new();
    for r in case["reg"].as_array().unwrap() {
      versions.insert(v(&r[0]), JsrPackageInfoVersion { created_at: date(r[2].as_str().unwrap()), yanked: r[1].as_bool().unwrap() });
    }
    let info = JsrPackageInfo { versions, latest: None };
    let name = "@s/p";
    // calibration of the model's requirement table against deno_semver
    if let Some(m) = case["matches"].as_object() {
      for (req, set) in m {
        let pr = PackageReq::from_str(&format!("{name}@{req}")).expect("req");
        let set: HashSet<u64> = set.as_array().unwrap().iter().map(|x| x.as_u64().unwrap()).collect();
        for (i, ver) in vers.iter().enumerate() {
          if pr.version_req.matches(ver) != set.contains(&(i as u64 + 1)) {
            mism.push(json!({"case": idx, "what": "calibration", "req": req, "version": ver.to_string(), "model": set.contains(&(i as u64 + 1))}));
          }
        }
      }
    }
    let cutoff = chrono::DateTime::from_timestamp(1_735_689_600, 0).unwrap(); // 2025-01-01
    let mk = |on: bool, ex_name: Option<&str>, ex_prefix: Option<&str>| JsrVersionResolver {
      newest_dependency_date_options: NewestDependencyDateOptions {
        date: on.then_some(NewestDependencyDate(cutoff)),
        exclude_jsr_pkgs: ex_name.into_iter().map(|s| s.into()).collect(),
        exclude_jsr_pkg_prefixes: ex_prefix.into_iter().map(|s| s.into()).collect(),
      },
    };
    let combos = case["combos"].as_array().unwrap();
    // expected results by (req, existing, cached, cutoff) for the exclusion variants
    let mut by_key: HashMap<String, &Value> = HashMap::new();
    for c in combos {
      by_key.insert(format!("{}|{}|{}|{}", c[0], c[1], c[2], c[3]), &c[4]);
    }
    for c in combos {
      let req = c[0].as_str().unwrap();
      let pr = PackageReq::from_str(&format!("{name}@{req}")).expect("req");
      let existing: Vec<Version> = c[1].as_array().unwrap().iter().map(&v).collect();
      let cached: HashSet<Version> = c[2].as_array().unwrap().iter().map(&v).collect();
      let on = c[3].as_bool().unwrap();
      let mut variants: Vec<(JsrVersionResolver, &Value, &str)> = vec![(mk(on, None, None), &c[4], "plain")];
      if on {
        let off = by_key[&format!("{}|{}|{}|false", c[0], c[1], c[2])];
        variants.push((mk(true, Some("@s/p"), None), off, "excluded-by-name"));
        variants.push((mk(true, None, Some("@s/")), off, "excluded-by-prefix"));
        variants.push((mk(true, Some("@s/pp"), Some("@t/")), &c[4], "other-package-excluded"));
      }
      for (resolver, expect, label) in variants {
        stats.0 += 1;
        let pname = pr.name.clone();
        let r = resolver.get_for_package(&pname, &info);
        let got = match r.resolve_version(&pr, existing.iter(), &cached) {
          Ok(res) => {
            let i = vers.iter().position(|x| x == res.version).map(|i| i + 1).unwrap_or(0);
            json!(["ok", i, res.is_yanked])
          }
          Err(e) => json!(["nf", e.newest_dependency_date.is_some()]),
        };
        if got[0] == "ok" {
          stats.1 += 1;
        }
        if &got != expect {
          stats.2 += 1;
          if mism.len() < 200 {
            mism.push(json!({"case": idx, "what": "resolve_version", "variant": label, "req": req, "existing": c[1], "cached": c[2], "cutoff": on,
                             "reg": case["reg"], "expected": expect, "observed": got, "prop": ["C06"]}));
          }
        }
      }
    }
  }
}

pub fn cmd_replay_jsr(args: &[String]) -> i32 {
  let cases_path = arg(args, "--cases").expect("--cases");
  let result_path = arg(args, "--result").expect("--result");
  let mut mism = vec![];
  let mut stats = (0usize, 0usize, 0usize);
  let mut n = 0;
  for (i, l) in std::io::BufReader::new(std::fs::File::open(&cases_path).expect("cases")).lines().enumerate() {
    let l = l.unwrap();
    if l.trim().is_empty() {
      continue;
    }
    jsr_replay::run(&l, i, &mut mism, &mut stats);
    n += 1;
  }
  let res = json!({"cases": n, "calls": stats.0, "resolved": stats.1, "failed": stats.2, "mismatches": mism});
  std::fs::write(&result_path, serde_json::to_string(&res).unwrap()).unwrap();
  0
}

/// record-jsr: seeded random (or given) registry worlds -> instrumented builds -> trace ndjson
pub fn cmd_record_jsr(args: &[String]) -> i32 {
  use rand::SeedableRng;
  let trace_path = arg(args, "--trace").expect("--trace");
  let result_path = arg(args, "--result").expect("--result");
  let n: usize = arg(args, "--n").map(|s| s.parse().unwrap()).unwrap_or(100);
  let seed: u64 = arg(args, "--seed").map(|s| s.parse().unwrap()).unwrap_or(1);
  let faults = args.iter().any(|a| a == "--faults");
  let kinds_s = arg(args, "--kinds").unwrap_or_else(|| "all".to_string());
  let kinds: Vec<&str> = kinds_s.split(',').collect();
  let mut worlds: Vec<World> = vec![];
  if let Some(p) = arg(args, "--worlds") {
    for l in std::io::BufReader::new(std::fs::File::open(p).expect("worlds")).lines() {
      let l = l.unwrap();
      if l.trim().is_empty() { continue; }
      let v: Value = serde_json::from_str(&l).unwrap();
      let w = if v.get("w").is_some() { v["w"].clone() } else { v };
      worlds.push(serde_json::from_value(w).expect("world"));
    }
  } else {
    let mut rng = rand::rngs::StdRng::seed_from_u64(seed);
    for _ in 0..n {
      worlds.push(jsr::gen_world(&mut rng, faults));
    }
  }
  let mut out = vec![];
  let mut problems = vec![];
  for (i, w) in worlds.iter().enumerate() {
    jsr::record_world(i, w, &kinds, &mut out, &mut problems);
  }
  let mut f = std::io::BufWriter::new(std::fs::File::create(&trace_path).unwrap());
  for e in &out {
    writeln!(f, "{}", e).unwrap();
  }
  if let Some(p) = arg(args, "--dump-worlds") {
    let mut f = std::io::BufWriter::new(std::fs::File::create(p).unwrap());
    for w in &worlds {
      writeln!(f, "{}", serde_json::to_string(w).unwrap()).unwrap();
    }
  }
  let res = json!({"cases": worlds.len(), "trace_events": out.len(), "mismatches": problems});
  std::fs::write(&result_path, serde_json::to_string(&res).unwrap()).unwrap();
  0
}

/// sched: C04 observations.
///   --cases <ndjson>  TLC-generated (world, kind, schedule, graph) cases: replay the exact schedule through gated
///                     loads, compare the projection with the model's graph, and record the observation together
///                     with the observation of the immediate schedule
///   --n/--seed        seeded random registry worlds: immediate schedule, K random schedules, R repetitions
/// every run becomes one `obs` trace event (world id, run label, hash of the observation)
pub fn cmd_sched(args: &[String]) -> i32 {
  use rand::Rng;
  use rand::SeedableRng;
  use sha2::Digest;
  let trace_path = arg(args, "--trace").expect("--trace");
  let result_path = arg(args, "--result").expect("--result");
  let k: usize = arg(args, "--schedules").map(|s| s.parse().unwrap()).unwrap_or(6);
  let reps: usize = arg(args, "--repeat").map(|s| s.parse().unwrap()).unwrap_or(4);
  let seed: u64 = arg(args, "--seed").map(|s| s.parse().unwrap()).unwrap_or(1);
  let n: usize = arg(args, "--n").map(|s| s.parse().unwrap()).unwrap_or(100);
  let mut out: Vec<Value> = vec![];
  let mut problems: Vec<Value> = vec![];
  let mut runs = 0usize;
  let hash = |v: &Value| -> String {
    let mut h = sha2::Sha256::new();
    h.update(serde_json::to_vec(v).unwrap());
    format!("{:x}", h.finalize())[..16].to_string()
  };
  let mut observe = |wid: String, world: &World, kind: &str, label: String, pick: Option<&mut dyn FnMut(usize) -> usize>,
                     out: &mut Vec<Value>, problems: &mut Vec<Value>| -> Option<(Value, Vec<usize>)> {
    let r = std::panic::catch_unwind(std::panic::AssertUnwindSafe(|| jsr::build_full_sched(world, kind_of(kind), &world.roots, pick)));
    match r {
      Err(e) => {
        problems.push(json!({"world": wid, "what": "panic", "msg": panic_msg(e), "run": label, "prop": ["C03", "C04"]}));
        None
      }
      Ok(Err(msg)) => {
        problems.push(json!({"world": wid, "what": "stuck", "msg": msg, "run": label, "prop": ["C03", "C04"]}));
        None
      }
      Ok(Ok((fb, picks))) => {
        let obs = jsr::observation(world, &fb);
        out.push(json!({"ev": "obs", "world": wid, "run": label, "picks": picks, "hash": hash(&obs),
                        "pending": !pending_specifiers(&fb.graph).is_empty()}));
        Some((graph_json(world, &fb.graph), picks))
      }
    }
  };
  if let Some(cases) = arg(args, "--cases") {
    for (i, l) in std::io::BufReader::new(std::fs::File::open(cases).expect("cases")).lines().enumerate() {
      let l = l.unwrap();
      if l.trim().is_empty() { continue; }
      let case: Value = serde_json::from_str(&l).unwrap();
      let world: World = serde_json::from_value(case["w"].clone()).expect("world");
      let kind = case["kind"].as_str().unwrap_or("all").to_string();
      let wid = format!("case{i}");
      let schedule: Vec<usize> = case["schedule"].as_array().map(|a| a.iter().map(|x| x.as_u64().unwrap() as usize).collect()).unwrap_or_default();
      out.push(json!({"ev": "world", "world": wid, "source": "tlc", "w": case["w"]}));
      observe(wid.clone(), &world, &kind, "immediate".into(), None, &mut out, &mut problems);
      let mut pos = 0usize;
      let sch = schedule.clone();
      let mut pick = move |n: usize| -> usize { let v = sch.get(pos).copied().unwrap_or(0); pos += 1; v.min(n - 1) };
      let r = observe(wid.clone(), &world, &kind, "tlc-schedule".into(), Some(&mut pick), &mut out, &mut problems);
      runs += 2;
      if let Some((g, picks)) = r {
        let expected = norm_graph(&case["graph"]);
        if let Some((path, e, o)) = first_diff("g", &strip(&expected, &["sch", "ctx"]), &strip(&g, &["sch", "ctx"])) {
          problems.push(json!({"world": wid, "what": "graph-under-schedule", "path": path, "expected": e, "observed": o, "schedule": schedule, "prop": ["C04"]}));
        }
        if picks != schedule {
          out.push(json!({"ev": "note", "world": wid, "what": "schedule-drift", "model": schedule, "real": picks}));
        }
      }
    }
  } else {
    let mut rng = rand::rngs::StdRng::seed_from_u64(seed);
    for i in 0..n {
      let world = jsr::gen_world(&mut rng, args.iter().any(|a| a == "--faults"));
      let wid = format!("rw{i}");
      out.push(json!({"ev": "world", "world": wid, "source": "random", "w": serde_json::to_value(&world).unwrap()}));
      observe(wid.clone(), &world, "all", "immediate".into(), None, &mut out, &mut problems);
      for r in 0..reps {
        observe(wid.clone(), &world, "all", format!("repeat{r}"), None, &mut out, &mut problems);
      }
      for s in 0..k {
        let mut srng = rand::rngs::StdRng::seed_from_u64(seed.wrapping_mul(1000003).wrapping_add((i * 97 + s) as u64));
        // schedule families: reverse order, in order, random
        let mode = s % 3;
        let mut pick = move |n: usize| -> usize { match mode { 0 => n - 1, 1 => 0, _ => srng.gen_range(0..n) } };
        observe(wid.clone(), &world, "all", format!("schedule{s}"), Some(&mut pick), &mut out, &mut problems);
      }
      runs += 1 + reps + k;
    }
  }
  let mut f = std::io::BufWriter::new(std::fs::File::create(&trace_path).unwrap());
  for e in &out {
    writeln!(f, "{}", e).unwrap();
  }
  let res = json!({"runs": runs, "trace_events": out.len(), "mismatches": problems});
  std::fs::write(&result_path, serde_json::to_string(&res).unwrap()).unwrap();
  0
}

/// info (C13): (a) every module source of the generated worlds (and of the repository's spec corpus) is analysed,
/// serialised, read back and compared; (b) each registry world is built with the version manifest carrying no module
/// information / moduleGraph2 / moduleGraph1, with nothing / everything / a random subset cached; all variants are
/// recorded as one `variants` trace event for T_Info.
pub fn cmd_info(args: &[String]) -> i32 {
  use rand::Rng;
  use rand::SeedableRng;
  use deno_graph::analysis::ModuleInfo;
  let trace_path = arg(args, "--trace").expect("--trace");
  let result_path = arg(args, "--result").expect("--result");
  let seed: u64 = arg(args, "--seed").map(|s| s.parse().unwrap()).unwrap_or(1);
  let n: usize = arg(args, "--n").map(|s| s.parse().unwrap()).unwrap_or(100);
  let mut rng = rand::rngs::StdRng::seed_from_u64(seed);
  let mut out: Vec<Value> = vec![];
  let mut problems: Vec<Value> = vec![];
  let mut roundtrips = 0usize;
  let mut nontrivial = 0usize;
  let parser = deno_graph::ast::DefaultEsParser;
  let analyzer = deno_graph::ast::ParserModuleAnalyzer::new(&parser);
  let mut roundtrip = |spec: &str, text: &str, problems: &mut Vec<Value>, roundtrips: &mut usize, nontrivial: &mut usize| {
    let Ok(url) = deno_graph::ModuleSpecifier::parse(spec) else { return };
    let mt = deno_graph::MediaType::from_specifier(&url);
    let Ok(info) = analyzer.analyze_sync(&url, text.into(), mt) else { return };
    *roundtrips += 1;
    if info != ModuleInfo::default() {
      *nontrivial += 1;
    }
    let j = serde_json::to_value(&info).unwrap();
    match serde_json::from_value::<ModuleInfo>(j.clone()) {
      Ok(back) => {
        if back != info || serde_json::to_value(&back).unwrap() != j {
          problems.push(json!({"what": "roundtrip", "spec": spec, "json": j, "prop": ["C13"]}));
        }
      }
      Err(e) => problems.push(json!({"what": "roundtrip-deserialize", "spec": spec, "err": e.to_string(), "json": j, "prop": ["C13"]})),
    }
  };
  // corpus: every module source embedded in tests/specs
  if let Some(dir) = arg(args, "--corpus") {
    for (spec, text) in corpus_sources(&dir) {
      roundtrip(&spec, &text, &mut problems, &mut roundtrips, &mut nontrivial);
    }
  }
  // a matrix of documents covering every descriptor kind / argument / attribute form (the vocabulary of Analyzer.tla)
  {
    use rand::SeedableRng;
    let mut r2 = rand::rngs::StdRng::seed_from_u64(seed ^ 0x5eed);
    let all = ["imp", "impDefault", "impNs", "side", "impJson", "impType", "impInlineType", "expNamed", "expStar", "expStarAs", "expType", "expTypeStar", "impEq",
               "expImpEq", "typeImportExpr", "typeofImport", "declMod", "dyn", "dynTpl", "dynTplParts", "dynExpr", "dynJson", "dynUnknownAttr", "req", "tsTypesImp",
               "denoTypesImp", "tsTypesExport", "jsdocType", "jsdocImportTag", "impDefer", "dynDefer", "dynSource", "impSource", "reqTpl"];
    let ts_only = ["impType", "impInlineType", "expType", "expTypeStar", "impEq", "expImpEq", "typeImportExpr", "typeofImport", "declMod"];
    for (mt, header) in [("ts", "refTypesMode"), ("js", "selfTypes"), ("tsx", "jsxSourceTypes"), ("jsx", "jsxSource"), ("mjs", "refPath")] {
      for chunk in all.chunks(3) {
        let items: Vec<&str> = chunk.iter().copied().filter(|i| mt == "ts" || mt == "tsx" || !ts_only.contains(i)).collect();
        let doc = json!({"header": header, "items": items, "footer": "sourceMap"});
        let r = analyzer::render(&doc, mt, &mut r2);
        roundtrip(&format!("file:///matrix.{}", analyzer::ext_of(mt)), &r.text, &mut problems, &mut roundtrips, &mut nontrivial);
      }
    }
  }
  for i in 0..n {
    let mut world = jsr::gen_info_world(&mut rng);
    let wid = format!("iw{i}");
    for id in world.mods.keys() {
      roundtrip(&world.url_of(id), &world.render(id), &mut problems, &mut roundtrips, &mut nontrivial);
    }
    let paths: Vec<String> = world.registry["@s/p"].versions["1.0.0"].files.keys().cloned().collect();
    let mut variants = vec![];
    for info in ["none", "v2", "v1"] {
      for cache in ["none", "all", "some"] {
        if info == "none" && cache != "none" { continue; }
        {
          let pv = world.registry.get_mut("@s/p").unwrap().versions.get_mut("1.0.0").unwrap();
          pv.info = info.into();
          pv.cached = match cache { "all" => paths.clone(), "some" => paths.iter().filter(|_| rng.gen_bool(0.5)).cloned().collect(), _ => vec![] };
        }
        for kind in ["all", "code", "types"] {
          let r = std::panic::catch_unwind(std::panic::AssertUnwindSafe(|| jsr::build_full(&world, kind_of(kind), &world.roots)));
          match r {
            Ok(fb) => variants.push(json!({"info": info, "cache": cache, "kind": kind, "g": graph_json(&world, &fb.graph)})),
            Err(e) => problems.push(json!({"what": "panic", "world": wid, "msg": panic_msg(e), "prop": ["C03", "C13"]})),
          }
        }
      }
    }
    out.push(json!({"ev": "variants", "world": wid, "w": serde_json::to_value(&world).unwrap(), "variants": variants}));
  }
  let mut f = std::io::BufWriter::new(std::fs::File::create(&trace_path).unwrap());
  for e in &out {
    writeln!(f, "{}", e).unwrap();
  }
  let res = json!({"worlds": n, "roundtrips": roundtrips, "nontrivial_infos": nontrivial, "trace_events": out.len(), "mismatches": problems});
  std::fs::write(&result_path, serde_json::to_string(&res).unwrap()).unwrap();
  0
}

/// Module sources embedded in the repository's spec files (`# <url>` header followed by the text).
pub fn corpus_sources(dir: &str) -> Vec<(String, String)> {
  fn walk(d: &std::path::Path, out: &mut Vec<std::path::PathBuf>) {
    if let Ok(rd) = std::fs::read_dir(d) {
      for e in rd.flatten() {
        let p = e.path();
        if p.is_dir() { walk(&p, out) } else if p.extension().is_some_and(|x| x == "txt") { out.push(p) }
      }
    }
  }
  let mut files = vec![];
  walk(std::path::Path::new(dir), &mut files);
  files.sort();
  let mut res = vec![];
  for f in files {
    let Ok(text) = std::fs::read_to_string(&f) else { continue };
    let mut cur: Option<(String, String)> = None;
    for line in text.lines() {
      if let Some(h) = line.strip_prefix("# ") {
        if let Some(c) = cur.take() { res.push(c); }
        let h = h.trim();
        if h == "output" || h.starts_with("mod.") && false { cur = None; continue; }
        if h.contains("://") || h.starts_with("mod") || h.contains('.') {
          let spec = if h.contains("://") { h.to_string() } else { format!("file:///{h}") };
          cur = Some((spec, String::new()));
        }
      } else if line.starts_with("# ") {
      } else if let Some((_, t)) = cur.as_mut() {
        t.push_str(line);
        t.push('\n');
      }
    }
    if let Some(c) = cur.take() { res.push(c); }
  }
  res
}

// ---------------------------------------------------------------------------------------------
// C20: replay of the Encoding.tla decision table
mod enc_replay {
  use deno_graph::source::*;
  use deno_graph::*;
  use serde_json::Value;
  use serde_json::json;
  use std::collections::HashMap;
  use std::sync::Arc;

  pub fn payload_text(media: &str, seed: u64, cls: &str) -> String {
    // seeded payload: ASCII only for the ascii class, BMP + astral characters otherwise
    let fancy = ["é", "€", "😀", "日本", "ß\u{0301}"][(seed % 5) as usize];
    let s = if cls == "ascii" { "plain" } else { fancy };
    if media == "json" { format!("{{\"k{seed}\": \"{s}\"}}") } else { format!("export const v{seed} = \"{s}\";\n") }
  }

  pub fn bytes_for(cls: &str, text: &str) -> Vec<u8> {
    let u16le = |t: &str| t.encode_utf16().flat_map(|u| u.to_le_bytes()).collect::<Vec<u8>>();
    let u16be = |t: &str| t.encode_utf16().flat_map(|u| u.to_be_bytes()).collect::<Vec<u8>>();
    match cls {
      "ascii" | "utf8" => text.as_bytes().to_vec(),
      "utf8bom" => [&[0xEF, 0xBB, 0xBF][..], text.as_bytes()].concat(),
      "utf16le_bom" => [&[0xFF, 0xFE][..], &u16le(text)].concat(),
      "utf16be_bom" => [&[0xFE, 0xFF][..], &u16be(text)].concat(),
      "utf16le_nobom" => u16le(text),
      "invalid_utf8" => {
        let mut b = text.as_bytes().to_vec();
        b.extend_from_slice(b"//");
        b.extend_from_slice(&[0xC3, 0x28, 0xA0, 0xFF]);
        b.push(b'\n');
        b
      }
      "empty" => vec![],
      _ => panic!("class"),
    }
  }

  /// reference decoding with the Rust standard library only (independent of encoding_rs)
  pub fn reference_decode(charset: &str, bytes: &[u8]) -> Option<String> {
    let mut s = match charset {
      "utf-8" => String::from_utf8_lossy(bytes).into_owned(),
      "utf-16le" | "utf-16be" => {
        let mut units = vec![];
        let mut i = 0;
        while i + 1 < bytes.len() {
          units.push(if charset == "utf-16le" { u16::from_le_bytes([bytes[i], bytes[i + 1]]) } else { u16::from_be_bytes([bytes[i], bytes[i + 1]]) });
          i += 2;
        }
        let mut t: String = char::decode_utf16(units).map(|r| r.unwrap_or('\u{FFFD}')).collect();
        if bytes.len() % 2 == 1 {
          t.push('\u{FFFD}');
        }
        t
      }
      "windows-1252" => {
        // only decided for bytes whose windows-1252 mapping is the identity (0x00-0x7F, 0xA0-0xFF)
        if bytes.iter().any(|b| (0x80..0xA0).contains(b)) {
          return None;
        }
        bytes.iter().map(|b| *b as char).collect()
      }
      _ => return None,
    };
    if s.starts_with('\u{FEFF}') {
      s.drain(..'\u{FEFF}'.len_utf8());
    }
    Some(s)
  }

  struct OneLoader {
    mods: HashMap<String, (Vec<u8>, Option<HashMap<String, String>>)>,
  }
  impl Loader for OneLoader {
    fn load(&self, specifier: &ModuleSpecifier, o: LoadOptions) -> LoadFuture {
      // cold cache: a cache-only probe finds nothing
      if o.cache_setting == CacheSetting::Only {
        return Box::pin(async move { Ok(None) });
      }
      let r = self.mods.get(specifier.as_str()).map(|(b, h)| LoadResponse::Module {
        content: Arc::from(b.clone()), mtime: None, specifier: specifier.clone(), maybe_headers: h.clone(),
      });
      Box::pin(async move { Ok(r) })
    }
  }

  pub fn run(idx: usize, case: &Value, seed: u64, mism: &mut Vec<Value>, stats: &mut (usize, usize)) {
    let row = &case["row"];
    let exp = &case["expect"];
    let (scheme, header, cls, media, pos) = (row["scheme"].as_str().unwrap(), row["header"].as_str().unwrap(), row["cls"].as_str().unwrap(),
      row["media"].as_str().unwrap(), row["pos"].as_str().unwrap());
    for rep in 0..3u64 {
      let text = payload_text(media, seed.wrapping_add(rep).wrapping_add(idx as u64), cls);
      let bytes = bytes_for(cls, &text);
      let base = if scheme == "file" { "file:///".to_string() } else if scheme == "jsr" { "https://jsr.io/@s/p/1.0.0/".to_string() } else { "https://h.example/".to_string() };
      let murl = format!("{base}m.{media}");
      let rurl = if scheme == "jsr" { "file:///root.ts".to_string() } else { format!("{base}root.ts") };
      let ctype = if media == "json" { "application/json" } else { "application/typescript" };
      let headers = (header != "none").then(|| HashMap::from([("content-type".to_string(), format!("{ctype}; charset={header}"))]));
      let mut mods = HashMap::new();
      mods.insert(murl.clone(), (bytes.clone(), headers.clone()));
      let with = if media == "json" { " with { type: \"json\" }" } else { "" };
      if scheme == "jsr" {
        use sha2::Digest;
        let mut h = sha2::Sha256::new();
        h.update(&bytes);
        let file = format!("/m.{media}");
        mods.insert("https://jsr.io/@s/p/meta.json".to_string(), (json!({"versions": {"1.0.0": {}}}).to_string().into_bytes(), None));
        mods.insert("https://jsr.io/@s/p/1.0.0_meta.json".to_string(), (json!({"exports": {"./m": format!("./m.{media}")},
          "manifest": {file.clone(): {"size": bytes.len(), "checksum": format!("sha256-{:x}", h.finalize())}}, "moduleGraph2": {file: {}}}).to_string().into_bytes(), None));
        mods.insert(rurl.clone(), (format!("import x from \"jsr:@s/p@1/m\"{with};\n").into_bytes(), None));
      } else {
        mods.insert(rurl.clone(), (format!("import x from \"./m.{media}\"{with};\n").into_bytes(), None));
      }
      let loader = OneLoader { mods };
      let mut g = ModuleGraph::new(GraphKind::All);
      let root = ModuleSpecifier::parse(if pos == "root" { &murl } else { &rurl }).unwrap();
      let exec = crate::ops::InlineExecutor;
      futures::executor::block_on(g.build(vec![root], vec![], &loader, BuildOptions { executor: &exec, ..Default::default() }));
      let mspec = ModuleSpecifier::parse(&murl).unwrap();
      stats.0 += 1;
      let charset = exp["charset"].as_str().unwrap();
      let mut fail = |what: &str, obs: Value| {
        mism.push(json!({"case": idx, "what": what, "row": row, "expect": exp, "observed": obs, "bytes": bytes, "prop": ["C20"]}));
      };
      match g.try_get(&mspec) {
        Err(e) => {
          let k = crate::project::module_err_kind(e);
          if exp["outcome"] == "decodeError" {
            if k != "decode" { fail("expected-decode-error", json!(k)); }
          } else if k != "parse" {
            // a decodable input whose text does not parse is a parse error, anything else is wrong
            fail("unexpected-error", json!(k));
          }
        }
        Ok(None) => fail("module-absent", json!(null)),
        Ok(Some(m)) => {
          stats.1 += 1;
          if exp["outcome"] == "decodeError" {
            fail("undecodable-input-became-module", json!("module"));
            continue;
          }
          let (stored, orig): (std::sync::Arc<str>, Option<Arc<[u8]>>) = match m {
            Module::Js(j) => (j.source.text.clone(), j.source.try_get_original_bytes()),
            Module::Json(j) => (j.source.text.clone(), j.source.try_get_original_bytes()),
            _ => { fail("unexpected-module-kind", json!(null)); continue; }
          };
          if let Some(reference) = reference_decode(charset, &bytes) {
            if *stored != *reference {
              fail("stored-text-differs-from-reference-decoding", json!({"stored": &*stored, "reference": reference}));
            }
          }
          match (&orig, exp["original"].as_str().unwrap()) {
            (Some(o), _) if **o != *bytes => fail("original-bytes-differ-from-supplied", json!(o.to_vec())),
            (Some(_), "none") => fail("original-bytes-returned-where-model-says-none", json!(null)),
            (None, "same") => fail("original-bytes-missing-where-model-says-same", json!(null)),
            _ => {}
          }
          // size as serialised = byte length of the stored text
          let v = serde_json::to_value(&g).unwrap();
          if let Some(ms) = v["modules"].as_array() {
            for x in ms {
              if x["specifier"] == murl && x["size"].as_u64() != Some(stored.len() as u64) {
                fail("size-differs-from-stored-text-length", json!(x["size"]));
              }
            }
          }
        }
      }
    }
  }
}

pub fn cmd_replay_enc(args: &[String]) -> i32 {
  let cases_path = arg(args, "--cases").expect("--cases");
  let result_path = arg(args, "--result").expect("--result");
  let seed: u64 = arg(args, "--seed").map(|s| s.parse().unwrap()).unwrap_or(1);
  let mut mism = vec![];
  let mut stats = (0usize, 0usize);
  let mut n = 0;
  for (i, l) in std::io::BufReader::new(std::fs::File::open(&cases_path).expect("cases")).lines().enumerate() {
    let l = l.unwrap();
    if l.trim().is_empty() { continue; }
    let case: Value = serde_json::from_str(&l).unwrap();
    enc_replay::run(i, &case, seed, &mut mism, &mut stats);
    n += 1;
  }
  let res = json!({"cases": n, "loads": stats.0, "modules": stats.1, "mismatches": mism});
  std::fs::write(&result_path, serde_json::to_string(&res).unwrap()).unwrap();
  0
}

/// fc (C09-C12): seeded random workspace packages, or TLC-generated abstract programs (--cases), run through the real
/// fast check without cache / cold / warm / after an edit with the stale cache; one `fc` trace event per run.
pub fn cmd_fc(args: &[String]) -> i32 {
  use rand::SeedableRng;
  let trace_path = arg(args, "--trace").expect("--trace");
  let result_path = arg(args, "--result").expect("--result");
  let seed: u64 = arg(args, "--seed").map(|s| s.parse().unwrap()).unwrap_or(1);
  let n: usize = arg(args, "--n").map(|s| s.parse().unwrap()).unwrap_or(100);
  let slow: f64 = arg(args, "--slow").map(|s| s.parse().unwrap()).unwrap_or(0.08);
  let mut rng = rand::rngs::StdRng::seed_from_u64(seed);
  let mut out: Vec<Value> = vec![];
  let mut problems: Vec<Value> = vec![];
  let mut worlds: Vec<(String, fc::FcWorld, Option<Value>)> = vec![];
  if let Some(cases) = arg(args, "--cases") {
    for (i, l) in std::io::BufReader::new(std::fs::File::open(cases).expect("cases")).lines().enumerate() {
      let l = l.unwrap();
      if l.trim().is_empty() { continue; }
      let case: Value = serde_json::from_str(&l).unwrap();
      worlds.push((format!("prog{i}"), fc::render_program(&case["prog"], i), Some(case)));
    }
  } else if let Some(sf) = arg(args, "--shapes") {
    for (i, l) in std::io::BufReader::new(std::fs::File::open(sf).expect("shapes")).lines().enumerate() {
      let l = l.unwrap();
      if l.trim().is_empty() { continue; }
      let case: Value = serde_json::from_str(&l).unwrap();
      let mut codes: Vec<String> = case["codes"].as_array().map(|a| a.iter().filter_map(|x| x.as_str().map(|s| s.to_string())).collect()).unwrap_or_default();
      codes.sort();
      worlds.push((format!("shape{i}"), fc::render_shape(&case["shape"]), Some(if case.get("sig").is_some() { json!({"expect": {"codes": codes, "shape": case["shape"], "sig": case["sig"]}}) } else { json!({"expect": {"codes": codes, "shape": case["shape"]}}) })));
    }
  } else if let Some(wf) = arg(args, "--worlds") {
    for (i, l) in std::io::BufReader::new(std::fs::File::open(wf).expect("worlds")).lines().enumerate() {
      let l = l.unwrap();
      if l.trim().is_empty() { continue; }
      worlds.push((format!("fw{i}"), serde_json::from_str(&l).expect("fc world"), None));
    }
  } else {
    for i in 0..n {
      let w = fc::gen_world(&mut rng, slow);
      // every third world is published to the registry and consumed from a root module instead of being a workspace
      worlds.push((format!("fw{i}"), if i % 3 == 2 { w.to_registry() } else { w }, None));
    }
  }
  let run = |wid: &str, world: &fc::FcWorld, cache: Option<&fc::MemCache>, problems: &mut Vec<Value>| -> Option<Value> {
    let r = std::panic::catch_unwind(std::panic::AssertUnwindSafe(|| {
      let mut g = fc::build_graph(world);
      fc::run_fast_check(world, &mut g, cache);
      fc::project(world, &g)
    }));
    match r {
      Ok(p) => Some(p),
      Err(e) => {
        problems.push(json!({"world": wid, "what": "panic", "msg": panic_msg(e), "prop": ["C09", "C10", "C11", "C12"]}));
        None
      }
    }
  };
  for (wid, world, case) in &worlds {
    out.push(json!({"ev": "fcworld", "world": wid, "w": serde_json::to_value(world).unwrap(),
                    "expect": case.as_ref().map(|c| c["expect"].clone()).unwrap_or(json!({"none": true}))}));
    let cache = fc::MemCache::default();
    let mut step = 0;
    let mut emit = |mode: &str, base: usize, p: Option<Value>, out: &mut Vec<Value>, step: &mut usize| {
      if let Some(p) = p {
        out.push(json!({"ev": "fc", "world": wid, "step": *step, "mode": mode, "base": base, "proj": p}));
      }
      *step += 1;
    };
    emit("none", 0, run(wid, world, None, &mut problems), &mut out, &mut step);
    if case.is_some() {
      continue; // TLC-generated programs: the public-set comparison needs one run only
    }
    emit("none", 0, run(wid, world, None, &mut problems), &mut out, &mut step);
    emit("cold", 0, run(wid, world, Some(&cache), &mut problems), &mut out, &mut step);
    emit("warm", 0, run(wid, world, Some(&cache), &mut problems), &mut out, &mut step);
    let (w2, what) = fc::edit_world(&mut rng, world);
    out.push(json!({"ev": "fcedit", "world": wid, "what": what, "w": serde_json::to_value(&w2).unwrap()}));
    let base = step;
    emit("none", base, run(wid, &w2, None, &mut problems), &mut out, &mut step);
    emit("stale", base, run(wid, &w2, Some(&cache), &mut problems), &mut out, &mut step);
    emit("warm", base, run(wid, &w2, Some(&cache), &mut problems), &mut out, &mut step);
  }
  let mut f = std::io::BufWriter::new(std::fs::File::create(&trace_path).unwrap());
  for e in &out {
    writeln!(f, "{}", e).unwrap();
  }
  let res = json!({"worlds": worlds.len(), "trace_events": out.len(), "mismatches": problems});
  std::fs::write(&result_path, serde_json::to_string(&res).unwrap()).unwrap();
  0
}

/// fcdump: print the emitted fast-check text of every module of one world (debugging aid)
pub fn cmd_fcdump(args: &[String]) -> i32 {
  let w: fc::FcWorld = serde_json::from_str(&std::fs::read_to_string(arg(args, "--world").unwrap()).unwrap()).unwrap();
  let mut g = fc::build_graph(&w);
  fc::run_fast_check(&w, &mut g, None);
  for m in g.modules() {
    if let deno_graph::Module::Js(js) = m {
      println!("=== {} ===", js.specifier);
      match &js.fast_check {
        Some(deno_graph::FastCheckTypeModuleSlot::Module(fc)) => println!("{}", fc.source),
        Some(deno_graph::FastCheckTypeModuleSlot::Error(d)) => println!("ERROR {:?}", d.iter().map(|x| x.to_string()).collect::<Vec<_>>()),
        None => println!("(none)"),
      }
    }
  }
  0
}

/// replay-analyzer (C08): TLC-generated documents, each rendered `--reps` times with different seeded trivia
pub fn cmd_replay_analyzer(args: &[String]) -> i32 {
  use rand::SeedableRng;
  let cases_path = arg(args, "--cases").expect("--cases");
  let result_path = arg(args, "--result").expect("--result");
  let seed: u64 = arg(args, "--seed").map(|s| s.parse().unwrap()).unwrap_or(1);
  let reps: usize = arg(args, "--reps").map(|s| s.parse().unwrap()).unwrap_or(1);
  let mut rng = rand::rngs::StdRng::seed_from_u64(seed);
  let mut mism = vec![];
  let mut stats = (0usize, 0usize, 0usize);
  let mut n = 0;
  for (i, l) in std::io::BufReader::new(std::fs::File::open(&cases_path).expect("cases")).lines().enumerate() {
    let l = l.unwrap();
    if l.trim().is_empty() { continue; }
    let case: Value = serde_json::from_str(&l).unwrap();
    for _ in 0..reps {
      analyzer::check_case(i, &case, &mut rng, &mut mism, &mut stats);
    }
    n += 1;
  }
  let mut corpus = (0usize, 0usize, 0usize);
  if let Some(dir) = arg(args, "--corpus") {
    for (spec, text) in corpus_sources(&dir) {
      analyzer::check_corpus_source(&spec, &text, &mut mism, &mut corpus);
    }
  }
  let res = json!({"cases": n, "documents": stats.0, "descriptors": stats.1, "ranges_checked": stats.2,
                   "corpus_modules": corpus.0, "corpus_descriptors": corpus.1, "corpus_ranges": corpus.2, "mismatches": mism});
  std::fs::write(&result_path, serde_json::to_string(&res).unwrap()).unwrap();
  0
}

/// symbols (C16): TLC-generated star re-export programs (--cases), seeded random packages (--n), spec corpus (--corpus)
pub fn cmd_symbols(args: &[String]) -> i32 {
  use rand::SeedableRng;
  use std::collections::HashMap;
  let trace_path = arg(args, "--trace").expect("--trace");
  let result_path = arg(args, "--result").expect("--result");
  let seed: u64 = arg(args, "--seed").map(|s| s.parse().unwrap()).unwrap_or(1);
  let n: usize = arg(args, "--n").map(|s| s.parse().unwrap()).unwrap_or(0);
  let mut out: Vec<Value> = vec![];
  let mut problems: Vec<Value> = vec![];
  let mut worlds = 0usize;
  let mut run = |label: String, files: HashMap<String, String>, roots: Vec<String>, expect: Option<Value>, out: &mut Vec<Value>, problems: &mut Vec<Value>| {
    out.push(json!({"ev": "symworld", "world": label, "files": files}));
    let r = std::panic::catch_unwind(std::panic::AssertUnwindSafe(|| {
      let g = symbols::build(&files, &roots);
      let mut evs = vec![];
      symbols::events_for(&g, &files, expect.as_ref(), &|u: &str| u.rsplit('/').next().unwrap_or(u).trim_end_matches(".ts").to_string(), &mut evs);
      evs
    }));
    match r {
      Ok(evs) => out.extend(evs),
      Err(e) => problems.push(json!({"world": label, "what": "panic", "msg": panic_msg(e), "prop": ["C16"]})),
    }
  };
  if let Some(cases) = arg(args, "--cases") {
    for (i, l) in std::io::BufReader::new(std::fs::File::open(cases).expect("cases")).lines().enumerate() {
      let l = l.unwrap();
      if l.trim().is_empty() { continue; }
      let case: Value = serde_json::from_str(&l).unwrap();
      let mut files = HashMap::new();
      let mut roots = vec![];
      for (m, names) in case["own"].as_object().unwrap() {
        let mut src = String::new();
        for t in case["stars"][m].as_array().cloned().unwrap_or_default() {
          src.push_str(&format!("export * from \"./{}.ts\";\n", t.as_str().unwrap()));
        }
        for nm in names.as_array().cloned().unwrap_or_default() {
          let nm = nm.as_str().unwrap().to_string();
          if nm == "default" { src.push_str("export default 1;\n"); } else { src.push_str(&format!("export const {nm}: number = 1;\n")); }
        }
        let url = format!("file:///{m}.ts");
        roots.push(url.clone());
        files.insert(url, src);
      }
      roots.sort();
      worlds += 1;
      let mut exp = case["expect"].clone();
      exp["__own"] = case["own"].clone();
      run(format!("star{i}"), files, roots, Some(exp), &mut out, &mut problems);
    }
  }
  let mut rng = rand::rngs::StdRng::seed_from_u64(seed);
  for i in 0..n {
    let w = fc::gen_world(&mut rng, 0.1);
    let mut files = HashMap::new();
    let mut roots = vec![];
    for p in &w.packages {
      for (f, srcx) in &p.files {
        let url = w.url(p, f);
        // make file names unique across packages for the short ids used in the trace
        files.insert(url.clone(), srcx.clone());
        roots.push(url);
      }
    }
    roots.sort();
    worlds += 1;
    run(format!("rand{i}"), files, roots, None, &mut out, &mut problems);
  }
  // hand-written declaration forms: every syntactic way of producing nested symbols (dotted and block namespaces of
  // several depths, merging, classes with every member kind, enums, overloads, destructuring, default exports)
  {
    let forms: Vec<(&str, &str)> = vec![
      ("file:///forms/ns.ts", "export namespace A.B.C { export const x = 1; export interface I { a: number } }\nexport namespace D.E { export function f(): void {} }\nnamespace P.Q.R.S { export type T = string; }\nexport namespace Blk { export namespace In1 { export namespace In2 { export const deep = 1; } } }\n"),
      ("file:///forms/merge.ts", "export interface M { a: number }\nexport interface M { b: string }\nexport namespace M { export const c = 1; }\nexport function F(): void;\nexport function F(a: number): void;\nexport function F(a?: number): void {}\nexport namespace F { export const meta = 1; }\nexport class K {}\nexport namespace K { export type Opt = { v: number }; }\nexport enum En { A, B }\nexport namespace En { export function parse(s: string): En { return En.A; } }\n"),
      ("file:///forms/cls.ts", "export abstract class C<T> { static s = 1; static #ps = 2; #p = 3; private q = 4; readonly r: T = null as any; constructor(public pp: number, private pq: string) {} get g(): number { return 1; } set g(v: number) {} m(): void {} static sm(): void {} abstract am(): void; [Symbol.iterator](): void {} ['computed'](): void {} declare d: number; accessor acc = 1; static { C.s = 2; } }\nexport default class extends C<number> { am(): void {} }\n"),
      ("file:///forms/vars.ts", "export const { a, b: [c, ...d], ...e } = { a: 1, b: [1, 2, 3], f: 1 } as any;\nexport let [x, , y = 2] = [1, 2, 3];\nexport var v1 = 1, v2 = 2;\nexport const fnExpr = function named() {}, arrow = () => {}, cls = class Inner { m() {} };\nexport type Alias<T> = { [K in keyof T]: T[K] };\nexport declare function amb(a: string): number;\ndeclare global { interface Window { extra: number } }\ndeclare module \"ambient\" { export const z: number; }\nexport default function () {}\n"),
      ("file:///forms/reexp.ts", "import * as ns from \"./ns.ts\";\nimport Def, { C as Renamed } from \"./cls.ts\";\nimport type { M } from \"./merge.ts\";\nexport { ns, Def, Renamed };\nexport type { M };\nexport * as all from \"./vars.ts\";\nexport * from \"./merge.ts\";\nexport { a as aa, x } from \"./vars.ts\";\nimport Eq = ns.A.B;\nexport import Eq2 = ns.A.B.C;\nexport { Eq };\n"),
    ];
    let files: HashMap<String, String> = forms.iter().map(|(u, t)| (u.to_string(), t.to_string())).collect();
    let mut roots: Vec<String> = forms.iter().map(|(u, _)| u.to_string()).collect();
    roots.sort();
    worlds += 1;
    run("forms".to_string(), files, roots, None, &mut out, &mut problems);
  }
  if let Some(dir) = arg(args, "--corpus") {
    // one world per spec file: all its module sources
    let mut by_file: std::collections::BTreeMap<String, Vec<(String, String)>> = Default::default();
    for (file, spec, text) in corpus_sources_grouped(&dir) {
      by_file.entry(file).or_default().push((spec, text));
    }
    for (file, mods) in by_file {
      let mut files = HashMap::new();
      let mut roots = vec![];
      for (spec, text) in mods {
        if spec.starts_with("file://") || spec.starts_with("https://") {
          roots.push(spec.clone());
          files.insert(spec, text);
        }
      }
      if files.is_empty() { continue; }
      roots.sort();
      worlds += 1;
      run(format!("corpus:{file}"), files, roots, None, &mut out, &mut problems);
    }
  }
  let mut f = std::io::BufWriter::new(std::fs::File::create(&trace_path).unwrap());
  for e in &out {
    writeln!(f, "{}", e).unwrap();
  }
  let res = json!({"worlds": worlds, "trace_events": out.len(), "mismatches": problems});
  std::fs::write(&result_path, serde_json::to_string(&res).unwrap()).unwrap();
  0
}

pub fn corpus_sources_grouped(dir: &str) -> Vec<(String, String, String)> {
  fn walk(d: &std::path::Path, out: &mut Vec<std::path::PathBuf>) {
    if let Ok(rd) = std::fs::read_dir(d) {
      for e in rd.flatten() {
        let p = e.path();
        if p.is_dir() { walk(&p, out) } else if p.extension().is_some_and(|x| x == "txt") { out.push(p) }
      }
    }
  }
  let mut files = vec![];
  walk(std::path::Path::new(dir), &mut files);
  files.sort();
  let mut res = vec![];
  for f in files {
    let Ok(text) = std::fs::read_to_string(&f) else { continue };
    let fname = f.to_string_lossy().to_string();
    let mut cur: Option<(String, String)> = None;
    for line in text.lines() {
      if let Some(h) = line.strip_prefix("# ") {
        if let Some(c) = cur.take() { res.push((fname.clone(), c.0, c.1)); }
        let h = h.trim();
        if h == "output" || h.starts_with("output") || h.starts_with("diagnostics") { continue; }
        if h.contains("://") || h.contains('.') {
          let spec = if h.contains("://") { h.to_string() } else { format!("file:///{h}") };
          cur = Some((spec, String::new()));
        }
      } else if let Some((_, t)) = cur.as_mut() {
        t.push_str(line);
        t.push('\n');
      }
    }
    if let Some(c) = cur.take() { res.push((fname.clone(), c.0, c.1)); }
  }
  res
}
