//! C08: documents of Analyzer.tla rendered to source text with seeded trivia; the real analyser's ModuleInfo is
//! projected and compared with the model's expectation; every reported range is mapped back onto the text.
use deno_graph::analysis::*;
use deno_graph::*;
use rand::Rng;
use rand::rngs::StdRng;
use serde_json::Value;
use serde_json::json;

pub struct Rendered {
  pub text: String,
  /// per item index j (1-based): specifier text, types specifier text
  pub spec: Vec<String>,
  pub types: Vec<String>,
}

fn trivia(rng: &mut StdRng) -> &'static str {
  ["", "\n", "  ", "/* ß😀 日本 */ ", "// line ✓\n", "\r\n", "/* a\r\n b */\r\n", "\t"][rng.gen_range(0..8)]
}

pub fn ext_of(mt: &str) -> &'static str {
  match mt { "ts" => "ts", "tsx" => "tsx", "js" => "js", "jsx" => "jsx", "mjs" => "mjs", "dts" => "d.ts", _ => "ts" }
}

pub fn render(doc: &Value, mt: &str, rng: &mut StdRng) -> Rendered {
  let items: Vec<String> = doc["items"].as_array().map(|a| a.iter().map(|x| x.as_str().unwrap().to_string()).collect()).unwrap_or_default();
  let mut out = String::new();
  let mut spec = vec![String::new()];
  let mut types = vec![String::new()];
  let q = |rng: &mut StdRng| if rng.gen_bool(0.5) { '"' } else { '\'' };
  // header: leading comments of the first statement
  match doc["header"].as_str().unwrap_or("none") {
    "refPath" => out.push_str("/// <reference path=\"./hdr_path.d.ts\" />\n"),
    "refTypes" => out.push_str("/// <reference types=\"./hdr_types.d.ts\" />\n"),
    "refTypesMode" => out.push_str("/// <reference types=\"./hdr_types.d.ts\" resolution-mode=\"import\" />\n"),
    "refBoth" => out.push_str("/// <reference path=\"./hdr_path.d.ts\" types=\"./hdr_types.d.ts\" />\n"),
    "shebangRefTypes" => out.push_str("#!/usr/bin/env -S deno run\n/// <reference types=\"./hdr_types.d.ts\" />\n"),
    "selfTypes" => out.push_str("// @ts-self-types=\"./hdr_self.d.ts\"\n"),
    "jsxSource" => out.push_str("/** @jsxImportSource ./hdr_jsx */\n"),
    "jsxSourceTypes" => out.push_str("/** @jsxImportSource ./hdr_jsx */\n/** @jsxImportSourceTypes ./hdr_jsxt */\n"),
    _ => {}
  }
  for (k, id) in items.iter().enumerate() {
    let j = k + 1;
    // specifier with characters that need care: non-ASCII, and an escape in half of the cases
    // escapes are only meaningful inside string literals (not in JSDoc comments)
    let esc = rng.gen_bool(0.3) && !id.starts_with("jsdoc");
    let base = ["./m", "./dé", "../x/😀m", "https://h.example/p"][rng.gen_range(0..4)];
    let s_real = format!("{base}{j}.ts");
    let qc = q(rng);
    let s_written = if esc { s_real.replace('m', "\\u006d") } else { s_real.clone() };
    let t_real = format!("./t{j}.d.ts");
    let st = format!("{qc}{s_written}{qc}");
    out.push_str(trivia(rng));
    let dot = if mt == "dts" { "declare " } else { "" };
    let line = match id.as_str() {
      "imp" => format!("import {{ a{j} }} from {st};"),
      "impDefault" => format!("import d{j} from {st};"),
      "impNs" => format!("import * as n{j} from {st};"),
      "side" => format!("import {st};"),
      "impJson" => format!("import j{j} from {st} with {{ type: \"json\" }};"),
      "impType" => format!("import type {{ T{j} }} from {st};"),
      "impInlineType" => format!("import {{ type F{j} }} from {st};"),
      "expNamed" => format!("export {{ e{j} }} from {st};"),
      "expStar" => format!("export * from {st};"),
      "expStarAs" => format!("export * as h{j} from {st};"),
      "expType" => format!("export type {{ U{j} }} from {st};"),
      "expTypeStar" => format!("export type * from {st};"),
      "impEq" => format!("import r{j} = require({st});"),
      "expImpEq" => format!("export import x{j} = require({st});"),
      "typeImportExpr" => format!("{dot}type A{j} = import({st}).X;"),
      "typeofImport" => format!("{dot}type B{j} = typeof import({st});"),
      "declMod" => format!("declare module {st} {{ }}"),
      "dyn" => format!("await import({st});"),
      "dynTpl" => format!("await import(`{s_written}`);"),
      "impDefer" => format!("import defer * as df{j} from {st};"),
      "dynDefer" => format!("await import.defer({st});"),
      "dynSource" => format!("await import.source({st});"),
      "impSource" => format!("import source ws{j} from {st};"),
      "reqTpl" => format!("require(`{s_written}`);"),
      "dynTplParts" => format!("await import(`./dir{j}/${{v{j}}}.ts`);"),
      "dynExpr" => format!("await import(v{j});"),
      "dynJson" => format!("await import({st}, {{ with: {{ type: \"json\" }} }});"),
      "dynUnknownAttr" => format!("await import({st}, opts{j});"),
      "req" => format!("require({st});"),
      "notReq" => format!("foo.require({st});"),
      "metaResolve" => format!("import.meta.resolve({st});"),
      "tsTypesImp" => format!("// @ts-types=\"{t_real}\"\nimport {{ a{j} }} from {st};"),
      "denoTypesImp" => format!("// @deno-types=\"{t_real}\"\nimport {{ a{j} }} from {st};"),
      "tsTypesNotLast" => format!("// @ts-types=\"{t_real}\"\n// another comment\nimport {{ a{j} }} from {st};"),
      "tsTypesExport" => format!("/* @ts-types=\"{t_real}\" */\nexport {{ e{j} }} from {st};"),
      "jsdocType" => format!("/** @type {{import({st}).X}} */\nexport const jd{j} = null;"),
      "jsdocImportTag" => format!("/** @import {{ X{j} }} from {st} */\nexport const ji{j} = null;"),
      "inert" => format!("{dot}const k{j}: number;").replace(": number;", if mt == "dts" || mt == "ts" || mt == "tsx" { ": number = 1;" } else { " = 1;" }).replace("declare const k", "declare const k").replace(" = 1;", if mt == "dts" { ";" } else { " = 1;" }),
      other => panic!("unknown item {other}"),
    };
    let line = if id == "inert" && mt == "dts" { format!("declare const k{j}: number;") } else { line };
    out.push_str(&line);
    out.push_str(if rng.gen_bool(0.3) { "\r\n" } else { "\n" });
    // the real (unescaped) texts; dynTpl has no escapes
    spec.push(s_real);
    types.push(t_real);
  }
  if doc["footer"] == "sourceMap" {
    out.push_str("//# sourceMappingURL=./doc.js.map");
    if rng.gen_bool(0.5) {
      out.push('\n');
    }
  }
  Rendered { text: out, spec, types }
}

/// text covered by a PositionRange (0-based line; character = index of the Unicode scalar in the line)
pub fn slice(text: &str, r: &PositionRange) -> Option<String> {
  // lines as the crate counts them: split on \n (a \r stays at the end of the line)
  let lines: Vec<&str> = text.split('\n').collect();
  if r.start.line != r.end.line {
    // multi-line ranges do not occur for specifier tokens
    return None;
  }
  let l = lines.get(r.start.line)?;
  let chars: Vec<char> = l.chars().collect();
  if r.end.character > chars.len() || r.start.character > r.end.character {
    return None;
  }
  Some(chars[r.start.character..r.end.character].iter().collect())
}

fn unquote_ok(covered: &str, real: &str, quoted: bool) -> bool {
  if quoted {
    let mut cs = covered.chars();
    let (Some(a), Some(b)) = (cs.next(), covered.chars().last()) else { return false };
    if a != b || !matches!(a, '"' | '\'' | '`') {
      return false;
    }
    let inner: String = covered.chars().skip(1).take(covered.chars().count().saturating_sub(2)).collect();
    // the written form may contain \u escapes of the real text
    inner == real || inner.replace("\\u006d", "m") == real
  } else {
    covered == real
  }
}

pub fn attrs_class(a: &ImportAttributes) -> &'static str {
  match a {
    ImportAttributes::None => "none",
    ImportAttributes::Unknown => "unknown",
    ImportAttributes::Known(m) => {
      if m.get("type") == Some(&ImportAttribute::Known("json".to_string())) { "json" } else { "known-other" }
    }
  }
}

pub fn kind_str<T: serde::Serialize>(k: &T) -> String {
  serde_json::to_value(k).ok().and_then(|v| v.as_str().map(|s| s.to_string())).unwrap_or_default()
}

pub fn check_case(idx: usize, case: &Value, rng: &mut StdRng, mism: &mut Vec<Value>, stats: &mut (usize, usize, usize)) {
  let mt = case["mt"].as_str().unwrap();
  let doc = &case["doc"];
  let exp = &case["expect"];
  let r = render(doc, mt, rng);
  let url = ModuleSpecifier::parse(&format!("file:///doc.{}", ext_of(mt))).unwrap();
  let media = MediaType::from_specifier(&url);
  let parser = deno_graph::ast::DefaultEsParser;
  let analyzer = deno_graph::ast::ParserModuleAnalyzer::new(&parser);
  stats.0 += 1;
  let mut fail = |what: &str, obs: Value, mism: &mut Vec<Value>| {
    if mism.len() < 300 {
      mism.push(json!({"case": idx, "what": what, "doc": doc, "mt": mt, "observed": obs, "text": r.text, "prop": ["C08"]}));
    }
  };
  let info = match analyzer.analyze_sync(&url, r.text.clone().into(), media) {
    Ok(i) => i,
    Err(e) => {
      fail("document-does-not-parse", json!(e.to_string()), mism);
      return;
    }
  };
  // ---- dependency descriptors: kinds, order, texts, attributes, pragma
  let mut obs = vec![];
  for d in &info.dependencies {
    stats.1 += 1;
    match d {
      DependencyDescriptor::Static(s) => {
        let j = r.spec.iter().position(|x| *x == s.specifier).unwrap_or(0);
        let tj = s.types_specifier.as_ref().map(|t| r.types.iter().position(|x| *x == t.text).unwrap_or(999)).unwrap_or(0);
        obs.push(json!({"type": "static", "kind": kind_str(&s.kind), "spec": j, "side": s.is_side_effect, "attrs": attrs_class(&s.import_attributes), "types": tj, "arg": "-"}));
        stats.2 += 1;
        match slice(&r.text, &s.specifier_range) {
          Some(c) if unquote_ok(&c, &s.specifier, true) => {}
          other => fail("specifier-range-does-not-cover-the-token", json!({"covered": other, "specifier": s.specifier, "range": s.specifier_range}), mism),
        }
        if let Some(t) = &s.types_specifier {
          stats.2 += 1;
          match slice(&r.text, &t.range) {
            Some(c) if unquote_ok(&c, &t.text, true) => {}
            other => fail("types-pragma-range-does-not-cover-the-token", json!({"covered": other, "text": t.text, "range": t.range}), mism),
          }
        }
      }
      DependencyDescriptor::Dynamic(dd) => {
        let (arg, j) = match &dd.argument {
          DynamicArgument::String(s) => ("string", r.spec.iter().position(|x| x == s).unwrap_or(0)),
          DynamicArgument::Template(_) => ("template", 0),
          DynamicArgument::Expr => ("expr", 0),
        };
        obs.push(json!({"type": "dynamic", "kind": kind_str(&dd.kind), "spec": j, "side": false, "attrs": attrs_class(&dd.import_attributes), "types": 0, "arg": arg}));
        if let DynamicArgument::String(s) = &dd.argument {
          stats.2 += 1;
          match slice(&r.text, &dd.argument_range) {
            Some(c) if unquote_ok(&c, s, true) => {}
            other => fail("argument-range-does-not-cover-the-token", json!({"covered": other, "specifier": s, "range": dd.argument_range}), mism),
          }
        }
      }
    }
  }
  // expected: template / expr arguments carry no specifier index
  let mut expd = vec![];
  for e in exp["deps"].as_array().cloned().unwrap_or_default() {
    let mut e = e.clone();
    if e["arg"] == "template" || e["arg"] == "expr" {
      e["spec"] = json!(0);
    }
    expd.push(e);
  }
  if json!(obs) != json!(expd) {
    fail("dependency-descriptors-differ", json!({"observed": obs, "expected": expd}), mism);
  }
  // ---- JSDoc imports
  let jd: Vec<usize> = info.jsdoc_imports.iter().map(|j| r.spec.iter().position(|x| *x == j.specifier.text).unwrap_or(0)).collect();
  if json!(jd) != exp["jsdoc"] {
    fail("jsdoc-imports-differ", json!({"observed": jd, "expected": exp["jsdoc"]}), mism);
  }
  for j in &info.jsdoc_imports {
    stats.2 += 1;
    match slice(&r.text, &j.specifier.range) {
      Some(c) if unquote_ok(&c, &j.specifier.text, true) => {}
      other => fail("jsdoc-range-does-not-cover-the-token", json!({"covered": other, "text": j.specifier.text}), mism),
    }
  }
  // ---- triple-slash references
  let refs: Vec<Value> = info.ts_references.iter().map(|t| match t {
    TypeScriptReference::Path(_) => json!({"type": "path", "mode": "none"}),
    TypeScriptReference::Types { resolution_mode, .. } => json!({"type": "types", "mode": resolution_mode.as_ref().map(|m| kind_str(m)).unwrap_or_else(|| "none".to_string())}),
  }).collect();
  if json!(refs) != exp["tsRefs"] {
    fail("ts-references-differ", json!({"observed": refs, "expected": exp["tsRefs"]}), mism);
  }
  for t in &info.ts_references {
    let (s, want) = match t {
      TypeScriptReference::Path(s) => (s, "./hdr_path.d.ts"),
      TypeScriptReference::Types { specifier, .. } => (specifier, "./hdr_types.d.ts"),
    };
    stats.2 += 1;
    if s.text != want || !matches!(slice(&r.text, &s.range), Some(c) if unquote_ok(&c, want, true)) {
      fail("ts-reference-range-or-text", json!({"text": s.text, "covered": slice(&r.text, &s.range)}), mism);
    }
  }
  // ---- pragmas
  let check_opt = |name: &str, got: &Option<SpecifierWithRange>, want: bool, text: &str, quoted: bool, mism: &mut Vec<Value>, fail: &mut dyn FnMut(&str, Value, &mut Vec<Value>)| {
    match (got, want) {
      (None, false) => {}
      (Some(s), true) => {
        if s.text != text || !matches!(slice(&r.text, &s.range), Some(c) if unquote_ok(&c, text, quoted)) {
          fail(&format!("{name}-range-or-text"), json!({"text": s.text, "covered": slice(&r.text, &s.range)}), mism);
        }
      }
      (g, w) => fail(&format!("{name}-presence"), json!({"observed": g.is_some(), "expected": w}), mism),
    }
  };
  check_opt("self-types", &info.self_types_specifier, exp["selfTypes"].as_bool().unwrap(), "./hdr_self.d.ts", true, mism, &mut fail);
  check_opt("jsx-import-source", &info.jsx_import_source, exp["jsxSource"].as_bool().unwrap(), "./hdr_jsx", false, mism, &mut fail);
  check_opt("jsx-import-source-types", &info.jsx_import_source_types, exp["jsxSourceTypes"].as_bool().unwrap(), "./hdr_jsxt", false, mism, &mut fail);
  check_opt("source-map-url", &info.source_map_url, exp["sourceMap"].as_bool().unwrap(), "./doc.js.map", false, mism, &mut fail);
  if idx % 3 == 0 {
    let mut c = 0;
    check_includes(idx, &url, &r.text, mism, &mut c);
    stats.2 += c;
  }
}

/// `Dependency::includes(position)`: for every position of every specifier token exactly the owning dependency
/// answers, with that token's range; a position outside all tokens is answered by none.
pub fn check_includes(idx: usize, url: &ModuleSpecifier, text: &str, mism: &mut Vec<Value>, checked: &mut usize) {
  let fs = deno_graph::source::NullFileSystem;
  let r = futures::executor::block_on(deno_graph::parse_module(deno_graph::ParseModuleOptions {
    graph_kind: GraphKind::All,
    specifier: url.clone(),
    maybe_headers: None,
    mtime: None,
    content: text.as_bytes().to_vec().into(),
    file_system: &fs,
    jsr_url_provider: Default::default(),
    maybe_resolver: None,
    module_analyzer: Default::default(),
  }));
  let Ok(Module::Js(js)) = r else { return };
  let deps: Vec<(&String, &Dependency)> = js.dependencies.iter().collect();
  for (name, d) in &deps {
    for imp in &d.imports {
      let r = &imp.specifier_range.range;
      if r.start.line != r.end.line || r.start == r.end {
        continue; // synthetic (zeroed) ranges
      }
      let mid = Position { line: r.start.line, character: (r.start.character + r.end.character) / 2 };
      for p in [r.start, mid, r.end] {
        *checked += 1;
        let owners: Vec<&String> = deps.iter().filter(|(_, x)| x.includes(p).is_some()).map(|(n, _)| *n).collect();
        let got = d.includes(p).map(|x| x.range);
        // several dependencies may legitimately share a position only if their tokens overlap, which they never do
        if !owners.contains(name) || got.is_none() || !got.unwrap().includes(p) || owners.iter().any(|o| {
          let od = &js.dependencies[*o];
          !od.imports.iter().any(|i| i.specifier_range.range.includes(p)) && !od.maybe_type.maybe_range().is_some_and(|rr| rr.range.includes(p))
        }) {
          if mism.len() < 300 {
            mism.push(json!({"case": idx, "what": "includes-lookup-wrong", "dep": name, "pos": [p.line, p.character], "owners": owners, "text": text, "prop": ["C08"]}));
          }
        }
      }
    }
  }
  let outside = Position { line: text.matches('\n').count() + 5, character: 0 };
  *checked += 1;
  if deps.iter().any(|(_, d)| d.includes(outside).is_some()) && mism.len() < 300 {
    mism.push(json!({"case": idx, "what": "includes-answers-outside-position", "text": text, "prop": ["C08"]}));
  }
}

/// Corpus clause: for a module source whose expected ModuleInfo is unknown, every reported range must still cover a
/// token whose (unquoted, unescaped) content is the reported specifier text.
pub fn check_corpus_source(spec: &str, text: &str, mism: &mut Vec<Value>, stats: &mut (usize, usize, usize)) {
  let Ok(url) = ModuleSpecifier::parse(spec) else { return };
  let media = MediaType::from_specifier(&url);
  if !matches!(media, MediaType::JavaScript | MediaType::Jsx | MediaType::Mjs | MediaType::Cjs | MediaType::TypeScript | MediaType::Mts | MediaType::Cts | MediaType::Tsx | MediaType::Dts | MediaType::Dmts | MediaType::Dcts) {
    return;
  }
  let parser = deno_graph::ast::DefaultEsParser;
  let analyzer = deno_graph::ast::ParserModuleAnalyzer::new(&parser);
  let Ok(info) = analyzer.analyze_sync(&url, text.into(), media) else { return };
  stats.0 += 1;
  let mut check = |what: &str, t: &str, r: &PositionRange, mism: &mut Vec<Value>, stats: &mut (usize, usize, usize)| {
    stats.2 += 1;
    let covered = slice(text, r);
    let ok = match &covered {
      Some(c) => {
        let inner: String = if c.len() >= 2 && matches!(c.chars().next(), Some('"' | '\'' | '`')) { c.chars().skip(1).take(c.chars().count() - 2).collect() } else { c.clone() };
        // escapes inside literals are not re-implemented here: accept when there is no backslash and the texts agree
        inner == t || c == t || inner.contains('\\')
      }
      None => false,
    };
    if !ok && mism.len() < 300 {
      mism.push(json!({"what": format!("corpus-{what}-range"), "spec": spec, "text_reported": t, "covered": covered, "range": r, "prop": ["C08"]}));
    }
  };
  for d in &info.dependencies {
    stats.1 += 1;
    match d {
      DependencyDescriptor::Static(s) => {
        check("specifier", &s.specifier, &s.specifier_range, mism, stats);
        if let Some(t) = &s.types_specifier { check("types-pragma", &t.text, &t.range, mism, stats); }
      }
      DependencyDescriptor::Dynamic(dd) => {
        if let DynamicArgument::String(s) = &dd.argument { check("argument", s, &dd.argument_range, mism, stats); }
        if let Some(t) = &dd.types_specifier { check("types-pragma", &t.text, &t.range, mism, stats); }
      }
    }
  }
  for t in &info.ts_references {
    match t {
      TypeScriptReference::Path(s) => check("ts-reference", &s.text, &s.range, mism, stats),
      TypeScriptReference::Types { specifier, .. } => check("ts-reference", &specifier.text, &specifier.range, mism, stats),
    }
  }
  for j in &info.jsdoc_imports { check("jsdoc", &j.specifier.text, &j.specifier.range, mism, stats); }
  if let Some(s) = &info.self_types_specifier { check("self-types", &s.text, &s.range, mism, stats); }
  if let Some(s) = &info.jsx_import_source { check("jsx-import-source", &s.text, &s.range, mism, stats); }
  if let Some(s) = &info.jsx_import_source_types { check("jsx-import-source-types", &s.text, &s.range, mism, stats); }
  if let Some(s) = &info.source_map_url { check("source-map-url", &s.text, &s.range, mism, stats); }
  let mut c = 0;
  check_includes(0, &url, text, mism, &mut c);
  stats.2 += c;
}
