//! Abstract module worlds (the JSON TLC prints / the generators produce) and
//! their rendering into concrete sources served by an in-memory loader.
use deno_graph::ModuleSpecifier;
use deno_graph::source::*;
use indexmap::IndexMap;
use serde::Deserialize;
use serde::Deserializer;
use serde::Serialize;
use serde_json::Value;
use std::cell::RefCell;
use std::collections::HashMap;
use std::sync::Arc;

/// TLC prints an empty function as `[]`; accept both `[]` and `{..}`.
pub fn de_map<'de, D, V>(d: D) -> Result<IndexMap<String, V>, D::Error>
where
  D: Deserializer<'de>,
  V: serde::de::DeserializeOwned,
{
  let v = Value::deserialize(d)?;
  match v {
    Value::Object(m) => {
      let mut out = IndexMap::new();
      for (k, v) in m {
        out.insert(k, serde_json::from_value(v).map_err(serde::de::Error::custom)?);
      }
      Ok(out)
    }
    Value::Array(a) if a.is_empty() => Ok(IndexMap::new()),
    Value::Null => Ok(IndexMap::new()),
    other => Err(serde::de::Error::custom(format!("expected map, got {other}"))),
  }
}

#[derive(Debug, Clone, Deserialize, Serialize, PartialEq)]
pub struct Item {
  pub t: String,
  #[serde(default = "zero")]
  pub sp: String,
  pub f: String,
  #[serde(default = "none")]
  pub a: String,
  #[serde(default = "dash")]
  pub tt: String,
}
fn zero() -> String {
  "0".into()
}
fn none() -> String {
  "none".into()
}
fn dash() -> String {
  "-".into()
}

#[derive(Debug, Clone, Deserialize, Serialize, PartialEq)]
pub struct Resp {
  pub k: String,
  #[serde(default)]
  pub items: Vec<Item>,
  #[serde(default = "dash")]
  pub st: String,
  #[serde(default)]
  pub to: String,
  /// raw source override (corpus / hand-written worlds)
  #[serde(default, skip_serializing_if = "Option::is_none")]
  pub src: Option<String>,
  /// response headers
  #[serde(default, skip_serializing_if = "Option::is_none")]
  pub headers: Option<HashMap<String, String>>,
  /// final specifier when the loader resolves a redirect itself
  #[serde(default, skip_serializing_if = "Option::is_none")]
  pub fin: Option<String>,
  /// target of an X-TypeScript-Types response header
  #[serde(default, skip_serializing_if = "Option::is_none")]
  pub ht: Option<String>,
  /// the loader's cache holds outdated bytes: `Use` serves them, `Reload` serves the current ones
  #[serde(default)]
  pub stale: bool,
}

#[derive(Debug, Clone, Deserialize, Serialize, Default)]
pub struct PkgVersion {
  #[serde(default)]
  pub yanked: bool,
  /// "none" | "old" | "new"
  #[serde(default = "none")]
  pub date: String,
  /// exports: a string or an object export name -> path
  #[serde(default)]
  pub exports: Value,
  /// path ("/mod.ts") -> module id in `mods`
  #[serde(default, deserialize_with = "de_map")]
  pub files: IndexMap<String, String>,
  /// "none" | "v2" | "v1": module information embedded in the version manifest
  #[serde(default = "none")]
  pub info: String,
  /// paths whose content is in the loader's cache (answer CacheSetting::Only)
  #[serde(default)]
  pub cached: Vec<String>,
  /// is the version manifest itself cached (prefer_cached_jsr_versions probes)
  #[serde(default)]
  pub meta_cached: bool,
  /// path -> "bytes" (served bytes differ from the manifest checksum) | "nomanifest" (no manifest entry) | "badsum" (checksum without sha256- prefix)
  #[serde(default, deserialize_with = "de_map")]
  pub tamper: IndexMap<String, String>,
  #[serde(default, skip_serializing_if = "Option::is_none")]
  pub lockfile_checksum: Option<String>,
  /// "ok" | "missing" | "err" | "garbage": how the version manifest load answers
  #[serde(default = "okstr")]
  pub meta: String,
}
fn okstr() -> String {
  "ok".into()
}

#[derive(Debug, Clone, Deserialize, Serialize, Default)]
pub struct Pkg {
  #[serde(default, deserialize_with = "de_map")]
  pub versions: IndexMap<String, PkgVersion>,
  /// "ok" | "missing" | "err" | "garbage": how the package meta.json load answers
  #[serde(default = "okstr")]
  pub meta: String,
}

#[derive(Debug, Clone, Deserialize, Serialize, Default)]
pub struct LockSpec {
  /// module id -> "match" | "wrong"
  #[serde(default, deserialize_with = "de_map")]
  pub remote: IndexMap<String, String>,
  /// "name@version" -> "match" | "wrong"
  #[serde(default, deserialize_with = "de_map")]
  pub pkg: IndexMap<String, String>,
  /// jsr requirement ("@s/a@1") -> version seeded through fill_from_lockfile
  #[serde(default, deserialize_with = "de_map")]
  pub reqs: IndexMap<String, String>,
  #[serde(default)]
  pub enabled: bool,
}

#[derive(Debug, Clone, Deserialize, Serialize, Default)]
pub struct WorldOpts {
  #[serde(default)]
  pub prefer_cached: bool,
  /// newest dependency date cutoff in force (2025-01-01)
  #[serde(default)]
  pub cutoff: bool,
  #[serde(default)]
  pub exclude_pkgs: Vec<String>,
  #[serde(default)]
  pub exclude_prefixes: Vec<String>,
  #[serde(default)]
  pub passthrough_jsr: bool,
}

/// npm resolver of the world: absent (the loader is asked), or present with failing requirements /
/// failing dependency-graph resolution
#[derive(Debug, Clone, Deserialize, Serialize, Default)]
pub struct NpmSpec {
  #[serde(default)]
  pub on: bool,
  #[serde(default)]
  pub failing: Vec<String>,
  #[serde(default, rename = "depFail")]
  pub dep_fail: bool,
}

#[derive(Debug, Clone, Deserialize, Serialize)]
pub struct World {
  #[serde(deserialize_with = "de_map")]
  pub mods: IndexMap<String, Resp>,
  pub roots: Vec<String>,
  #[serde(deserialize_with = "de_map")]
  pub ext: IndexMap<String, String>,
  #[serde(deserialize_with = "de_map")]
  pub sch: IndexMap<String, String>,
  /// explicit URL of a module id (registry files)
  #[serde(default, deserialize_with = "de_map")]
  pub urls: IndexMap<String, String>,
  #[serde(default, deserialize_with = "de_map")]
  pub registry: IndexMap<String, Pkg>,
  #[serde(default)]
  pub lock: LockSpec,
  #[serde(default)]
  pub opts: WorldOpts,
  #[serde(default)]
  pub npm: NpmSpec,
  /// configured type imports (compilerOptions.types of a configuration file): referrer id and target ids
  #[serde(default)]
  pub imports: Vec<ImportSpec>,
}

#[derive(Debug, Clone, Deserialize, Serialize, Default)]
pub struct ImportSpec {
  pub r#ref: String,
  pub specs: Vec<String>,
}

impl World {
  pub fn url_of(&self, id: &str) -> String {
    if let Some(u) = self.urls.get(id) {
      return u.clone();
    }
    if let Some(raw) = id.strip_prefix("raw:") {
      return raw.to_string();
    }
    let ext = self.ext.get(id).map(|s| s.as_str()).unwrap_or("ts");
    let sch = self.sch.get(id).map(|s| s.as_str()).unwrap_or("file");
    let file = match ext {
      "noext" => id.to_string(),
      "dts" => format!("{id}.d.ts"),
      e => format!("{id}.{e}"),
    };
    match sch {
      "file" => format!("file:///{file}"),
      "https" => format!("https://h.example/{file}"),
      "http" => format!("http://p.example/{file}"),
      other => format!("{other}://x.example/{file}"),
    }
  }

  pub fn spec_of(&self, id: &str) -> ModuleSpecifier {
    ModuleSpecifier::parse(&self.url_of(id)).unwrap()
  }

  pub fn id_of(&self, url: &str) -> String {
    for id in self.mods.keys() {
      if self.url_of(id) == url {
        return id.clone();
      }
    }
    for im in &self.imports {
      if self.url_of(&im.r#ref) == url {
        return im.r#ref.clone();
      }
    }
    url.to_string()
  }

  /// text used in module `referrer` to import `target` under spelling `sp`
  pub fn text_for(&self, referrer: &str, target: &str, sp: &str) -> String {
    if target == "!bad" {
      return "bad-specifier".to_string();
    }
    if let Some(raw) = target.strip_prefix("raw:") {
      return raw.to_string();
    }
    let r = self.url_of(referrer);
    let t = self.url_of(target);
    if t.starts_with("npm:") {
      return t;
    }
    let origin = |u: &str| u.rfind('/').map(|i| u[..i].to_string()).unwrap();
    let name = t.rsplit('/').next().unwrap().to_string();
    if origin(&r) == origin(&t) {
      if sp == "0" { format!("./{name}") } else { format!("././{name}") }
    } else if sp == "0" {
      t
    } else {
      format!("{}/./{}", origin(&t), name)
    }
  }

  /// abstract dependency key ("t#sp") for a concrete specifier text in `referrer`
  pub fn key_for_text(&self, referrer: &str, text: &str) -> String {
    if text == "bad-specifier" {
      return "!bad#0".to_string();
    }
    for t in self.mods.keys() {
      for sp in ["0", "1"] {
        if self.text_for(referrer, t, sp) == text {
          return format!("{t}#{sp}");
        }
      }
    }
    format!("raw:{text}#0")
  }

  pub fn render(&self, id: &str) -> String {
    let resp = &self.mods[id];
    if let Some(src) = &resp.src {
      return src.clone();
    }
    let ext = self.ext.get(id).map(|s| s.as_str()).unwrap_or("ts");
    if ext == "json" {
      return "{\"a\": 1}".to_string();
    }
    let mut out = String::new();
    if resp.st != "-" {
      out.push_str(&format!("// @ts-self-types=\"{}\"\n", self.text_for(id, &resp.st, "0")));
    }
    for (i, it) in resp.items.iter().enumerate() {
      let text = self.text_for(id, &it.t, &it.sp);
      let with = if it.a != "none" { format!(" with {{ type: \"{}\" }}", it.a) } else { String::new() };
      if it.tt != "-" {
        out.push_str(&format!("// @deno-types=\"{}\"\n", self.text_for(id, &it.tt, "0")));
      }
      match it.f.as_str() {
        "static" => out.push_str(&format!("import {{ x{i} }} from \"{text}\"{with};\n")),
        "sidefx" => out.push_str(&format!("import \"{text}\"{with};\n")),
        "export" => out.push_str(&format!("export * from \"{text}\"{with};\n")),
        "dynamic" => {
          if it.a != "none" {
            out.push_str(&format!("await import(\"{text}\", {{ with: {{ type: \"{}\" }} }});\n", it.a))
          } else {
            out.push_str(&format!("await import(\"{text}\");\n"))
          }
        }
        "type" => out.push_str(&format!("import type {{ X{i} }} from \"{text}\";\n")),
        "jsdoc" => out.push_str(&format!("/** @type {{import(\"{text}\").X{i}}} */\nexport const v{i} = null;\n")),
        other => panic!("unknown form {other}"),
      }
    }
    out.push_str(&format!("export const id_{} = 1;\n", id.replace(|c: char| !c.is_alphanumeric(), "_")));
    out
  }
}

#[derive(Debug, Clone, Serialize)]
pub struct LoadEvent {
  pub s: String,
  pub setting: &'static str,
  pub sum: Option<String>,
  pub dynamic: bool,
  pub was_dyn_root: bool,
  pub cached_only: bool,
}

/// In-memory loader over a world; every call is logged.
pub struct WorldLoader<'a> {
  pub world: &'a World,
  pub by_url: HashMap<String, String>,
  pub log: RefCell<Vec<LoadEvent>>,
  pub max_redirects: usize,
}

impl<'a> WorldLoader<'a> {
  pub fn new(world: &'a World) -> Self {
    let by_url = world.mods.keys().map(|id| (world.url_of(id), id.clone())).collect();
    Self { world, by_url, log: Default::default(), max_redirects: 10 }
  }

  pub fn respond(&self, specifier: &ModuleSpecifier) -> LoadResult {
    let Some(id) = self.by_url.get(specifier.as_str()) else {
      return Ok(None);
    };
    let resp = &self.world.mods[id];
    match resp.k.as_str() {
      "missing" => Ok(None),
      "err" => Err(LoadError::Other(Arc::new(deno_error::JsErrorBox::generic("loader failure")))),
      "external" | "npm" => Ok(Some(LoadResponse::External { specifier: specifier.clone() })),
      "redirect" => Ok(Some(LoadResponse::Redirect { specifier: self.world.spec_of(&resp.to) })),
      "mod" => {
        let fin = match &resp.fin {
          Some(f) if f != "-" => self.world.spec_of(f),
          _ => specifier.clone(),
        };
        Ok(Some(LoadResponse::Module {
          content: Arc::from(self.world.render(id).into_bytes()),
          mtime: None,
          specifier: fin,
          maybe_headers: match resp.ht.as_deref().filter(|t| *t != "-") {
            Some(t) => {
              let mut h = resp.headers.clone().unwrap_or_default();
              h.insert("x-typescript-types".to_string(), self.world.text_for(id, t, "0"));
              Some(h)
            }
            None => resp.headers.clone(),
          },
        }))
      }
      other => panic!("unknown response kind {other}"),
    }
  }
}

impl Loader for WorldLoader<'_> {
  fn max_redirects(&self) -> usize {
    self.max_redirects
  }
  fn load(&self, specifier: &ModuleSpecifier, options: LoadOptions) -> LoadFuture {
    self.log.borrow_mut().push(LoadEvent {
      s: specifier.to_string(),
      setting: match options.cache_setting {
        CacheSetting::Only => "only",
        CacheSetting::Use => "use",
        CacheSetting::Reload => "reload",
      },
      sum: options.maybe_checksum.as_ref().map(|c| c.as_str().to_string()),
      dynamic: options.in_dynamic_branch,
      was_dyn_root: options.was_dynamic_root,
      cached_only: false,
    });
    // divergence detector: no world of the instances needs more than a few hundred loads
    if self.log.borrow().len() > LOAD_BUDGET {
      panic!("load budget exceeded: the build does not terminate");
    }
    let r = self.respond(specifier);
    Box::pin(async move { r })
  }
}

pub const LOAD_BUDGET: usize = 3000;


/// NpmResolver of a world: requirements listed in `failing` fail; with `dep_fail` the dependency-graph resolution
/// fails whenever every individual requirement resolved. Every call is logged.
#[derive(Debug)]
pub struct WorldNpmResolver {
  pub failing: Vec<String>,
  pub dep_fail: bool,
  pub log: std::sync::Mutex<Vec<serde_json::Value>>,
}

impl WorldNpmResolver {
  pub fn new(n: &NpmSpec) -> Self {
    Self { failing: n.failing.clone(), dep_fail: n.dep_fail, log: Default::default() }
  }
}

#[async_trait::async_trait(?Send)]
impl deno_graph::source::NpmResolver for WorldNpmResolver {
  fn load_and_cache_npm_package_info(&self, package_name: &str) {
    self.log.lock().unwrap().push(serde_json::json!({"ev": "npm_prefetch", "name": package_name}));
  }

  async fn resolve_pkg_reqs(&self, package_reqs: &[deno_semver::package::PackageReq]) -> deno_graph::source::NpmResolvePkgReqsResult {
    let results: Vec<Result<(), deno_graph::NpmLoadError>> = package_reqs
      .iter()
      .map(|r| {
        if self.failing.iter().any(|f| deno_semver::package::PackageReq::from_str(f).map(|x| &x == r).unwrap_or(false)) {
          Err(deno_graph::NpmLoadError::PackageReqResolution(Arc::new(deno_error::JsErrorBox::generic("no matching version"))))
        } else {
          Ok(())
        }
      })
      .collect();
    let all_ok = results.iter().all(|r| r.is_ok());
    let dep = if self.dep_fail && all_ok { Err(Arc::new(deno_error::JsErrorBox::generic("dependency graph resolution failed")) as Arc<dyn deno_error::JsErrorClass>) } else { Ok(()) };
    self.log.lock().unwrap().push(serde_json::json!({"ev": "npm_resolve", "reqs": package_reqs.iter().map(|r| r.to_string()).collect::<Vec<_>>(),
      "ok": results.iter().map(|r| r.is_ok()).collect::<Vec<_>>(), "dep": dep.is_ok()}));
    deno_graph::source::NpmResolvePkgReqsResult { results, dep_graph_result: dep }
  }
}
