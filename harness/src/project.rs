//! Projection of real deno_graph state onto the abstract state of the TLA+
//! specification (GraphOps.tla: kind, roots, slots, redirects, imports, sch).
use deno_graph::*;
use serde_json::Value;
use serde_json::json;

pub trait Namer {
  fn id(&self, url: &str) -> String;
  fn key(&self, referrer_url: &str, text: &str) -> String;
}

pub struct IdentityNamer;
impl Namer for IdentityNamer {
  fn id(&self, url: &str) -> String {
    url.to_string()
  }
  fn key(&self, _r: &str, text: &str) -> String {
    text.to_string()
  }
}

impl Namer for crate::world::World {
  fn id(&self, url: &str) -> String {
    self.id_of(url)
  }
  fn key(&self, referrer_url: &str, text: &str) -> String {
    self.key_for_text(&self.id_of(referrer_url), text)
  }
}

pub fn kind_str(k: GraphKind) -> &'static str {
  match k {
    GraphKind::All => "all",
    GraphKind::CodeOnly => "code",
    GraphKind::TypesOnly => "types",
  }
}

pub fn kind_of(s: &str) -> GraphKind {
  match s {
    "all" => GraphKind::All,
    "code" => GraphKind::CodeOnly,
    "types" => GraphKind::TypesOnly,
    _ => panic!("kind {s}"),
  }
}

pub fn media_class(mt: MediaType) -> &'static str {
  use MediaType::*;
  match mt {
    JavaScript | Mjs | Cjs => "js",
    Jsx => "jsx",
    TypeScript | Mts | Cts => "ts",
    Tsx => "tsx",
    Dts | Dmts | Dcts => "dts",
    Json => "json",
    Wasm => "wasm",
    _ => "other",
  }
}

pub fn chk_class(mt: MediaType) -> &'static str {
  use MediaType::*;
  match mt {
    TypeScript | Mts | Cts | Dts | Dmts | Dcts | Tsx | Json | Wasm => "yes",
    JavaScript | Jsx | Mjs | Cjs => "js",
    _ => "no",
  }
}

pub fn res_err_kind(e: &ResolutionError) -> String {
  match e {
    ResolutionError::InvalidDowngrade { .. } => "downgrade".into(),
    ResolutionError::InvalidJsrHttpsTypesImport { .. } => "jsrhttpstypes".into(),
    ResolutionError::InvalidLocalImport { .. } => "localimport".into(),
    ResolutionError::InvalidSpecifier { error, .. } => match error {
      SpecifierError::ImportPrefixMissing { .. } => "importprefix".into(),
      SpecifierError::InvalidUrl(_) => "invalidurl".into(),
    },
    ResolutionError::ResolverError { .. } => "resolver".into(),
  }
}

pub fn resolution(n: &dyn Namer, r: &Resolution) -> Value {
  match r {
    Resolution::None => json!({"t": "none"}),
    Resolution::Ok(ok) => json!({"t": "ok", "ok": n.id(ok.specifier.as_str())}),
    Resolution::Err(e) => json!({"t": "err", "ek": res_err_kind(e)}),
  }
}

pub fn module_err_kind(e: &ModuleError) -> String {
  match e.as_kind() {
    ModuleErrorKind::Load { err, .. } => match err {
      ModuleLoadError::HttpsChecksumIntegrity(_) => "integrity".into(),
      ModuleLoadError::Decode(_) => "decode".into(),
      ModuleLoadError::Loader(_) => "load".into(),
      ModuleLoadError::Jsr(j) => format!("jsr:{}", jsr_err_kind(j)),
      ModuleLoadError::Npm(_) => "npm".into(),
      ModuleLoadError::TooManyRedirects => "toomanyredirects".into(),
    },
    ModuleErrorKind::Missing { .. } => "missing".into(),
    ModuleErrorKind::MissingDynamic { .. } => "missingdyn".into(),
    ModuleErrorKind::Parse { .. } => "parse".into(),
    ModuleErrorKind::WasmParse { .. } => "wasmparse".into(),
    ModuleErrorKind::UnsupportedMediaType { .. } => "unsupported".into(),
    ModuleErrorKind::InvalidTypeAssertion { .. } => "invalidassert".into(),
    ModuleErrorKind::UnsupportedImportAttributeType { .. } => "unsupportedattr".into(),
    ModuleErrorKind::UnsupportedModuleTypeForSourcePhaseImport { .. } => "sourcephase".into(),
  }
}

pub fn jsr_err_kind(j: &JsrLoadError) -> String {
  let d = format!("{j:?}");
  d.split(|c: char| !c.is_alphanumeric()).next().unwrap_or("?").to_string()
}

fn deps_json(n: &dyn Namer, referrer: &str, deps: &indexmap::IndexMap<String, Dependency>) -> Value {
  Value::Array(
    deps
      .iter()
      .map(|(text, d)| {
        json!({
          "text": n.key(referrer, text),
          "code": resolution(n, &d.maybe_code),
          "type": resolution(n, &d.maybe_type),
          "dyn": d.is_dynamic,
          "attr": d.maybe_attribute_type.clone().unwrap_or_else(|| "none".to_string()),
          "lf": text.to_lowercase().starts_with("file://"),
        })
      })
      .collect(),
  )
}

pub fn module_json(n: &dyn Namer, m: &Module) -> Value {
  let url = m.specifier().as_str();
  match m {
    Module::Js(js) => {
      let (tdep, tdep_text) = match &js.maybe_types_dependency {
        Some(td) => (resolution(n, &td.dependency), n.key(url, &td.specifier)),
        None => (json!({"t": "none"}), String::new()),
      };
      let mut v = json!({
        "k": "mod", "cls": "js", "mt": media_class(js.media_type), "chk": chk_class(js.media_type),
        "deps": deps_json(n, url, &js.dependencies), "tdep": tdep, "tdepText": tdep_text,
      });
      if let Some(fc) = js.fast_check_module() {
        v["fdeps"] = deps_json(n, url, &fc.dependencies);
      }
      v
    }
    Module::Wasm(w) => json!({"k": "mod", "cls": "wasm", "mt": "wasm", "chk": "yes",
      "deps": deps_json(n, url, &w.dependencies), "tdep": {"t": "none"}, "tdepText": ""}),
    Module::Json(_) => json!({"k": "mod", "cls": "json", "mt": "json", "chk": "yes", "deps": [], "tdep": {"t": "none"}, "tdepText": ""}),
    Module::Npm(_) => json!({"k": "mod", "cls": "npm", "mt": "npm", "chk": "no", "deps": [], "tdep": {"t": "none"}, "tdepText": ""}),
    Module::Node(_) => json!({"k": "mod", "cls": "node", "mt": "node", "chk": "no", "deps": [], "tdep": {"t": "none"}, "tdepText": ""}),
    Module::External(_) => json!({"k": "mod", "cls": "ext", "mt": "ext", "chk": "no", "deps": [], "tdep": {"t": "none"}, "tdepText": ""}),
  }
}

pub fn err_json(n: &dyn Namer, e: &ModuleError) -> Value {
  let r = match e.maybe_referrer() {
    Some(r) => n.id(r.specifier.as_str()),
    None => "-".to_string(),
  };
  let mut v = json!({"k": "err", "ek": module_err_kind(e), "ref": r});
  if let ModuleErrorKind::Load { err: ModuleLoadError::Jsr(JsrLoadError::UnknownExport { exports, export_name, .. }), .. } = e.as_kind() {
    let mut ex = exports.clone();
    ex.sort();
    v["exports"] = json!(ex);
    v["export"] = json!(export_name);
  }
  v
}

/// Specifiers whose slot is still `Pending` (only visible through serialisation).
pub fn pending_specifiers(g: &ModuleGraph) -> Vec<String> {
  let v = serde_json::to_value(g).unwrap_or(Value::Null);
  let mut out = vec![];
  if let Some(ms) = v.get("modules").and_then(|m| m.as_array()) {
    for m in ms {
      if let Some(e) = m.get("error").and_then(|e| e.as_str())
        && e.contains("[INTERNAL ERROR]")
        && let Some(s) = m.get("specifier").and_then(|s| s.as_str())
      {
        out.push(s.to_string());
      }
    }
  }
  out
}

pub fn graph_json(n: &dyn Namer, g: &ModuleGraph) -> Value {
  let mut slots = serde_json::Map::new();
  let mut sch = serde_json::Map::new();
  let ctx = std::cell::RefCell::new(std::collections::BTreeSet::new());
  // .json targets all of whose importers say `with { type: "json" }` are admitted whatever the context
  let mut json_attr_only: std::collections::HashMap<String, bool> = Default::default();
  for m in g.modules() {
    for d in m.dependencies().values() {
      let has_attr = d.maybe_attribute_type.as_deref() == Some("json");
      for r in [&d.maybe_code, &d.maybe_type] {
        if let Some(s) = r.maybe_specifier() {
          let e = json_attr_only.entry(s.to_string()).or_insert(true);
          *e = *e && has_attr;
        }
      }
    }
  }
  let note = |sch: &mut serde_json::Map<String, Value>, u: &ModuleSpecifier| {
    sch.insert(n.id(u.as_str()), Value::String(u.scheme().to_string()));
    // specifiers whose admission depends on the first-load context: unknown media types, and .json unless every
    // import of it carries the json attribute
    let mt = MediaType::from_specifier(u);
    if mt == MediaType::Unknown || (mt == MediaType::Json && !json_attr_only.get(u.as_str()).copied().unwrap_or(false)) {
      ctx.borrow_mut().insert(n.id(u.as_str()));
    }
  };
  // specifiers() lists the module slots first, under their real keys (pending slots are skipped)
  let n_slots = g.modules().count() + g.module_errors().count();
  for (key, r) in g.specifiers().take(n_slots) {
    note(&mut sch, key);
    match r {
      Ok(m) => {
        for d in m.dependencies().values() {
          for r in [&d.maybe_code, &d.maybe_type] {
            if let Some(s) = r.maybe_specifier() {
              note(&mut sch, s);
            }
          }
        }
        if let Some(td) = m.maybe_types_dependency()
          && let Some(s) = td.dependency.maybe_specifier()
        {
          note(&mut sch, s);
        }
        let mut v = module_json(n, m);
        if m.specifier() != key {
          v["keyMismatch"] = Value::String(n.id(m.specifier().as_str()));
        }
        slots.insert(n.id(key.as_str()), v);
      }
      Err(e) => {
        let mut v = err_json(n, e);
        if e.specifier() != key {
          // the entry is stored under a specifier other than the one the error names
          v["keyMismatch"] = Value::String(n.id(e.specifier().as_str()));
        }
        slots.insert(n.id(key.as_str()), v);
      }
    }
  }
  for p in pending_specifiers(g) {
    slots.entry(n.id(&p)).or_insert(json!({"k": "pending"}));
  }
  let mut redirects = serde_json::Map::new();
  for (a, b) in &g.redirects {
    note(&mut sch, a);
    note(&mut sch, b);
    redirects.insert(n.id(a.as_str()), Value::String(n.id(b.as_str())));
  }
  let imports: Vec<Value> = g
    .imports
    .iter()
    .map(|(r, gi)| json!({"ref": n.id(r.as_str()), "deps": deps_json(n, r.as_str(), &gi.dependencies)}))
    .collect();
  let roots: Vec<Value> = g.roots.iter().map(|r| Value::String(n.id(r.as_str()))).collect();
  for r in &g.roots {
    note(&mut sch, r);
  }
  json!({
    "kind": kind_str(g.graph_kind()), "roots": roots, "slots": slots, "redirects": redirects,
    "imports": imports, "sch": sch, "ctx": ctx.into_inner().into_iter().collect::<Vec<_>>(),
  })
}

