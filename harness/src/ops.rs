//! Drives the real crate: builds, walks, lookups, prune, segment; every call
//! becomes one trace event (arguments + result) for the TLA+ trace specs.
use crate::project::*;
use crate::world::*;
use deno_graph::*;
use serde_json::Value;
use serde_json::json;
use std::collections::BTreeSet;
use std::collections::HashSet;

pub struct InlineExecutor;
impl Executor for InlineExecutor {
  fn execute(
    &self,
    fut: std::pin::Pin<Box<dyn Future<Output = ()> + 'static>>,
  ) -> std::pin::Pin<Box<dyn Future<Output = ()> + 'static>> {
    fut
  }
}

#[derive(Debug, Clone, Default)]
pub struct BuildOpts {
  pub is_dynamic: bool,
  pub skip_dynamic: bool,
  pub max_redirects: Option<usize>,
}

pub fn build_on(world: &World, g: &mut ModuleGraph, roots: &[String], o: &BuildOpts) -> Vec<LoadEvent> {
  let mut loader = WorldLoader::new(world);
  if let Some(m) = o.max_redirects {
    loader.max_redirects = m;
  }
  let roots: Vec<ModuleSpecifier> = roots.iter().map(|r| world.spec_of(r)).collect();
  let exec = InlineExecutor;
  let npm = crate::world::WorldNpmResolver::new(&world.npm);
  let imports: Vec<deno_graph::ReferrerImports> = world
    .imports
    .iter()
    .map(|im| deno_graph::ReferrerImports { referrer: world.spec_of(&im.r#ref), imports: im.specs.iter().map(|t| world.text_for(&im.r#ref, t, "0")).collect() })
    .collect();
  futures::executor::block_on(g.build(
    roots,
    imports,
    &loader,
    BuildOptions {
      is_dynamic: o.is_dynamic,
      skip_dynamic_deps: o.skip_dynamic,
      executor: &exec,
      npm_resolver: if world.npm.on { Some(&npm) } else { None },
      ..Default::default()
    },
  ));
  loader.log.into_inner()
}

pub fn build(world: &World, kind: GraphKind, roots: &[String], o: &BuildOpts) -> ModuleGraph {
  let mut g = ModuleGraph::new(kind);
  build_on(world, &mut g, roots, o);
  g
}

pub fn reload(world: &World, g: &mut ModuleGraph, specs: &[String], o: &BuildOpts) {
  let loader = WorldLoader::new(world);
  let specs: Vec<ModuleSpecifier> = specs.iter().map(|r| world.spec_of(r)).collect();
  let exec = InlineExecutor;
  let npm = crate::world::WorldNpmResolver::new(&world.npm);
  futures::executor::block_on(g.reload(
    specs,
    &loader,
    BuildOptions { is_dynamic: o.is_dynamic, skip_dynamic_deps: o.skip_dynamic, executor: &exec,
      npm_resolver: if world.npm.on { Some(&npm) } else { None }, ..Default::default() },
  ));
}

pub fn graph_error_json(n: &dyn Namer, e: &ModuleGraphError) -> Value {
  match e {
    ModuleGraphError::ModuleError(me) => json!({"c": "mod", "ek": module_err_kind(me), "s": n.id(me.specifier().as_str())}),
    ModuleGraphError::ResolutionError(re) | ModuleGraphError::TypesResolutionError(re) => {
      let r = re.range().specifier.as_str().to_string();
      let s = match re {
        ResolutionError::InvalidDowngrade { specifier, .. }
        | ResolutionError::InvalidLocalImport { specifier, .. }
        | ResolutionError::InvalidJsrHttpsTypesImport { specifier, .. } => n.id(specifier.as_str()),
        ResolutionError::InvalidSpecifier { error, .. } => match error {
          SpecifierError::ImportPrefixMissing { specifier, .. } => n.key(&r, specifier),
          SpecifierError::InvalidUrl(_) => "?invalidurl".to_string(),
        },
        ResolutionError::ResolverError { specifier, .. } => n.key(&r, specifier),
      };
      json!({"c": "res", "ek": res_err_kind(re), "s": s, "ref": n.id(&r)})
    }
  }
}

#[derive(Debug, Clone)]
pub struct WOpts {
  pub kind: GraphKind,
  pub dynamic: bool,
  pub check_js: bool,
  pub fast: bool,
}

impl WOpts {
  pub fn json(&self) -> Value {
    json!({"kind": kind_str(self.kind), "dynamic": self.dynamic, "checkJs": self.check_js, "fast": self.fast})
  }
  pub fn real(&self) -> WalkOptions<'static> {
    WalkOptions {
      check_js: if self.check_js { CheckJsOption::True } else { CheckJsOption::False },
      follow_dynamic: self.dynamic,
      kind: self.kind,
      prefer_fast_check_graph: self.fast,
    }
  }
  pub fn all(fast: bool) -> Vec<WOpts> {
    let mut v = vec![];
    for kind in [GraphKind::All, GraphKind::CodeOnly, GraphKind::TypesOnly] {
      for dynamic in [false, true] {
        for check_js in [false, true] {
          v.push(WOpts { kind, dynamic, check_js, fast });
        }
      }
    }
    v
  }
}

fn entry_kind(e: &ModuleEntryRef) -> &'static str {
  match e {
    ModuleEntryRef::Module(_) => "mod",
    ModuleEntryRef::Err(_) => "err",
    ModuleEntryRef::Redirect(_) => "redirect",
  }
}

/// One `walk` event: yield sequence, the error listing, and the validation verdict.
pub fn walk_event(n: &dyn Namer, g: &ModuleGraph, roots: &[ModuleSpecifier], o: &WOpts, skip: &HashSet<String>) -> Value {
  let mut items = vec![];
  let mut it = g.walk(roots.iter(), o.real());
  while let Some((s, e)) = it.next() {
    let id = n.id(s.as_str());
    items.push(json!([id, entry_kind(&e)]));
    if matches!(e, ModuleEntryRef::Module(_)) && skip.contains(&id) {
      it.skip_previous_dependencies();
    }
  }
  let errors: Vec<Value> = g.walk(roots.iter(), o.real()).errors().map(|e| graph_error_json(n, &e)).collect();
  let verdict = g.walk(roots.iter(), o.real()).validate();
  let first = match &verdict {
    Ok(()) => json!({"c": "none", "ek": "", "s": ""}),
    Err(e) => graph_error_json(n, e),
  };
  let mut skip_v: Vec<&String> = skip.iter().collect();
  skip_v.sort();
  json!({"ev": "walk", "roots": roots.iter().map(|r| n.id(r.as_str())).collect::<Vec<_>>(),
         "opts": o.json(), "skip": skip_v, "items": items, "errors": errors, "ok": verdict.is_ok(), "first": first})
}

fn lookup_json(n: &dyn Namer, r: Result<Option<&Module>, &ModuleError>) -> Value {
  match r {
    Ok(Some(m)) => json!({"t": "mod", "s": n.id(m.specifier().as_str())}),
    Ok(None) => json!({"t": "none"}),
    Err(e) => json!({"t": "err", "s": n.id(e.specifier().as_str()), "ek": module_err_kind(e)}),
  }
}

/// Specifiers worth querying: roots, dependency targets, redirect sources and targets.
pub fn interesting_specifiers(g: &ModuleGraph) -> Vec<ModuleSpecifier> {
  let mut set = BTreeSet::new();
  for r in &g.roots {
    set.insert(r.clone());
  }
  for (a, b) in &g.redirects {
    set.insert(a.clone());
    set.insert(b.clone());
  }
  for m in g.modules() {
    set.insert(m.specifier().clone());
    for d in m.dependencies().values() {
      for r in [&d.maybe_code, &d.maybe_type] {
        if let Some(s) = r.maybe_specifier() {
          set.insert(s.clone());
        }
      }
    }
    if let Some(td) = m.maybe_types_dependency()
      && let Some(s) = td.dependency.maybe_specifier()
    {
      set.insert(s.clone());
    }
  }
  for e in g.module_errors() {
    set.insert(e.specifier().clone());
  }
  set.into_iter().collect()
}

pub fn lookup_events(n: &dyn Namer, g: &ModuleGraph, out: &mut Vec<Value>) {
  for s in interesting_specifiers(g) {
    out.push(json!({
      "ev": "lookup", "s": n.id(s.as_str()),
      "resolve": n.id(g.resolve(&s).as_str()),
      "resolve2": n.id(g.resolve(g.resolve(&s)).as_str()),
      "get": match g.get(&s) { Some(m) => json!({"t": "mod", "s": n.id(m.specifier().as_str())}), None => json!({"t": "none"}) },
      "tryget": lookup_json(n, g.try_get(&s)),
      "contains": g.contains(&s),
      "tgpt": lookup_json(n, g.try_get_prefer_types(&s)),
    }));
  }
  let list: Vec<Value> = g
    .specifiers()
    .map(|(s, r)| json!([n.id(s.as_str()), lookup_json(n, r.map(Some))]))
    .collect();
  out.push(json!({"ev": "specifiers", "list": list}));
  for m in g.modules() {
    for text in m.dependencies().keys() {
      for pt in [false, true] {
        let ret = match g.resolve_dependency(text, m.specifier(), pt) {
          Some(s) => json!({"t": "ok", "ok": n.id(s.as_str())}),
          None => json!({"t": "none"}),
        };
        out.push(json!({"ev": "resdep", "ref": n.id(m.specifier().as_str()), "text": n.key(m.specifier().as_str(), text), "pt": pt, "ret": ret}));
      }
    }
  }
}
