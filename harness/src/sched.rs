//! Schedule control: a loader wrapper whose futures stay pending until their gate is released,
//! and a manual poll loop that releases gates in a chosen order.
use deno_graph::ModuleSpecifier;
use deno_graph::source::*;
use std::cell::Cell;
use std::cell::RefCell;
use std::future::Future;
use std::pin::Pin;
use std::rc::Rc;
use std::task::Context;
use std::task::Poll;
use std::task::Waker;

#[derive(Default)]
pub struct Gate {
  pub released: Cell<bool>,
  pub waker: RefCell<Option<Waker>>,
}

struct GateFuture(Rc<Gate>);
impl Future for GateFuture {
  type Output = ();
  fn poll(self: Pin<&mut Self>, cx: &mut Context<'_>) -> Poll<()> {
    if self.0.released.get() {
      Poll::Ready(())
    } else {
      *self.0.waker.borrow_mut() = Some(cx.waker().clone());
      Poll::Pending
    }
  }
}

pub struct GatedLoader<'a> {
  pub inner: &'a dyn Loader,
  pub gates: RefCell<Vec<Rc<Gate>>>,
}

impl<'a> GatedLoader<'a> {
  pub fn new(inner: &'a dyn Loader) -> Self {
    Self { inner, gates: Default::default() }
  }
  pub fn outstanding(&self) -> Vec<Rc<Gate>> {
    self.gates.borrow().iter().filter(|g| !g.released.get()).cloned().collect()
  }
}

impl Loader for GatedLoader<'_> {
  fn max_redirects(&self) -> usize {
    self.inner.max_redirects()
  }
  fn load(&self, specifier: &ModuleSpecifier, options: LoadOptions) -> LoadFuture {
    // the response is fixed at call time; only its delivery is delayed
    let fut = self.inner.load(specifier, options);
    let gate = Rc::new(Gate::default());
    self.gates.borrow_mut().push(gate.clone());
    Box::pin(async move {
      GateFuture(gate).await;
      fut.await
    })
  }
}

/// Polls `fut` to completion, releasing one outstanding gate whenever it is pending.
/// `pick(n)` chooses among the n outstanding gates (issue order). Returns the picks made.
pub fn drive<T>(
  mut fut: Pin<Box<dyn Future<Output = T> + '_>>,
  loader: &GatedLoader<'_>,
  mut pick: impl FnMut(usize) -> usize,
  max_steps: usize,
) -> Result<(T, Vec<usize>), String> {
  let waker = futures::task::noop_waker();
  let mut cx = Context::from_waker(&waker);
  let mut picks = vec![];
  let mut idle = 0;
  for _ in 0..max_steps {
    if let Poll::Ready(v) = fut.as_mut().poll(&mut cx) {
      return Ok((v, picks));
    }
    let out = loader.outstanding();
    if out.is_empty() {
      idle += 1;
      if idle > 50 {
        return Err("build is pending with no outstanding load (deadlock)".to_string());
      }
      continue;
    }
    idle = 0;
    let i = pick(out.len()) % out.len();
    picks.push(i);
    out[i].released.set(true);
    if let Some(w) = out[i].waker.borrow_mut().take() {
      w.wake();
    }
  }
  Err(format!("step budget of {max_steps} exhausted (non-termination)"))
}
