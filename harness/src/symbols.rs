//! C16: projection of symbol tables, export key sets and go-to-definition runs.
use deno_graph::source::*;
use deno_graph::symbols::*;
use deno_graph::*;
use serde_json::Value;
use serde_json::json;
use std::collections::HashMap;
use std::sync::Arc;

struct MapLoader {
  files: HashMap<String, String>,
}
impl Loader for MapLoader {
  fn load(&self, specifier: &ModuleSpecifier, _o: LoadOptions) -> LoadFuture {
    let r = self.files.get(specifier.as_str()).map(|t| LoadResponse::Module {
      content: Arc::from(t.clone().into_bytes()), mtime: None, specifier: specifier.clone(), maybe_headers: None,
    });
    Box::pin(async move { Ok(r) })
  }
}

pub fn build(files: &HashMap<String, String>, roots: &[String]) -> ModuleGraph {
  let loader = MapLoader { files: files.clone() };
  let mut g = ModuleGraph::new(GraphKind::All);
  let exec = crate::ops::InlineExecutor;
  let roots = roots.iter().filter_map(|r| ModuleSpecifier::parse(r).ok()).collect();
  futures::executor::block_on(g.build(roots, vec![], &loader, BuildOptions { executor: &exec, ..Default::default() }));
  g
}

pub fn table_json(m: ModuleInfoRef<'_>) -> Value {
  let text_len = m.text().len();
  let root_id = m.module_symbol().symbol_id();
  let id = |s: SymbolId| -> i64 { format!("{s:?}").chars().filter(|c| c.is_ascii_digit()).collect::<String>().parse().unwrap_or(-2) };
  let mut rows = vec![];
  for s in m.symbols() {
    let decls: Vec<Value> = s
      .decls()
      .iter()
      .map(|d| {
        let r = d.range;
        let start = r.start.as_byte_index(m.text_info().range().start);
        let end = r.end.as_byte_index(m.text_info().range().start);
        json!({"name": d.maybe_name().map(|n| n.to_string()).unwrap_or_default(), "inText": start <= end && end <= text_len})
      })
      .collect();
    let exports: serde_json::Map<String, Value> = s.exports().iter().map(|(k, v)| (k.clone(), json!(id(*v)))).collect();
    rows.push(json!({
      "id": id(s.symbol_id()), "parent": s.parent_id().map(id).unwrap_or(-1),
      "children": s.child_ids().map(id).collect::<Vec<_>>(), "members": s.members().iter().map(|x| id(*x)).collect::<Vec<_>>(),
      "exports": exports, "name": s.maybe_name().map(|n| n.to_string()).unwrap_or_default(), "decls": decls,
      "root": s.symbol_id() == root_id,
      "def": s.decls().iter().all(|d| d.kind.is_definition()),
    }));
  }
  Value::Array(rows)
}

/// go_to_definitions_or_unresolveds from every declaration of every symbol, under a watchdog.
pub fn definitions(root: &RootSymbol<'_>, m: ModuleInfoRef<'_>) -> (usize, usize, Vec<String>) {
  let mut n = 0;
  let mut items = 0;
  let mut bad = vec![];
  for s in m.symbols() {
    n += 1;
    let started = std::time::Instant::now();
    let mut count = 0;
    for x in root.go_to_definitions_or_unresolveds(m, s) {
      count += 1;
      match x {
        DefinitionOrUnresolved::Definition(def) => {
          if def.symbol.decls().is_empty() {
            bad.push(format!("definition without declaration for {:?}", s.maybe_name()));
          }
        }
        DefinitionOrUnresolved::Unresolved(_) => {}
      }
      if count > 100_000 || started.elapsed().as_secs() > 10 {
        bad.push(format!("definition search does not terminate for {:?}", s.maybe_name()));
        break;
      }
    }
    items += count;
  }
  (n, items, bad)
}

pub fn events_for(g: &ModuleGraph, files: &HashMap<String, String>, expect: Option<&Value>, id_of: &dyn Fn(&str) -> String, out: &mut Vec<Value>) {
  let parser = deno_graph::ast::CapturingModuleAnalyzer::default();
  let root = RootSymbol::new(g, &parser);
  let mut urls: Vec<&String> = files.keys().collect();
  urls.sort();
  for url in urls {
    let Ok(spec) = ModuleSpecifier::parse(url) else { continue };
    let Some(m) = root.module_from_specifier(&spec) else { continue };
    out.push(json!({"ev": "symtab", "module": id_of(url), "tab": table_json(m)}));
    let mut keys: Vec<String> = m.exports(&root).resolved.keys().cloned().collect();
    keys.sort();
    // which module provides each resolved export (following re-export-all paths to the final export)
    let mut providers = serde_json::Map::new();
    for (name, item) in &m.exports(&root).resolved {
      let mut cur = item;
      loop {
        match cur {
          deno_graph::symbols::ResolvedExportOrReExportAllPath::Export(e) => {
            providers.insert(name.clone(), json!(id_of(e.module.specifier().as_str())));
            break;
          }
          deno_graph::symbols::ResolvedExportOrReExportAllPath::ReExportAllPath(p) => cur = &p.next,
        }
      }
    }
    let mut e = json!({"ev": "exports", "module": id_of(url), "keys": keys, "providers": providers,
                       "own": expect.map(|x| x["__own"][id_of(url)].clone()).unwrap_or(json!([]))});
    if let Some(exp) = expect {
      e["expect"] = exp[id_of(url)].clone();
      e["hasExpect"] = json!(true);
    } else {
      e["expect"] = json!([]);
      e["hasExpect"] = json!(false);
    }
    out.push(e);
    let (n, items, bad) = definitions(&root, m);
    out.push(json!({"ev": "defs", "module": id_of(url), "decls": n, "items": items, "bad": bad}));
  }
}
